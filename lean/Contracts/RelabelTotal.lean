/-
Contracts.RelabelTotal — total correctness of `permute_molecule` (property C16) relative to the
random generator.

`Contracts.Relabel.permute_molecule_spec` is a partial-correctness statement: it assumes that the call
returned.  Whether the retry loop `while m.edges == m_permu.edges: m_permu = _permute_molecule(m)` ends
depends on the draws of `random.shuffle`, so termination cannot be unconditional; here it is made explicit.

* `candidate env seed m k` — the relabelling built from the `k`-th `random.shuffle` after
  `random.seed(seed)` (exactly the value `_permute_molecule` computes at generator state `(seed, k)`).
* `differs env seed m k` — the loop's exit test on that candidate; `enforced m` — the code's
  `enforce_permutation`; `passes … k` — "the call may return the `k`-th candidate".
* `permute_molecule_returns` — if `k₀` is the least passing draw and `fuel > k₀`, the call returns exactly
  `candidate … k₀` (and has consumed `k₀ + 1` draws).  `permute_molecule_diverges` — if no draw below `fuel`
  passes the result is `Err.fuel`.  `permute_molecule_returns_iff` — both directions in one statement.
* `permute_molecule_total_small` — at most one bond, or a complete graph: returns for every `fuel` (even 0).
* `C16_total` — `permute_molecule_spec` without the run hypothesis: the hypothesis is about the draws only.
* a witness in which the first draw is rejected and the second accepted.
-/
import Contracts.Relabel
set_option autoImplicit false

open Py Py.Graph

namespace Contracts.RelabelTotal

open Contracts.Relabel

/-! ## the candidates and the exit test -/

/-- the value of `_sort_molecule_by_label g` (`Relabel.sort_molecule_by_label_eq`) -/
def sortByLabel (g : Graph) : Graph :=
  (Graph.empty.addNodesFromData (sorted g.node.items)).addEdgesFromData g.edgesData

/-- the `k`-th candidate: `m` relabelled by the `k`-th `random.shuffle` of its label list after
`random.seed(seed)`, then listed in label order.  A function of `env.shuffle`, `seed`, `m`, `k` only. -/
def candidate (env : DepEnv) (seed : Val) (m : Graph) (k : Nat) : Graph :=
  sortByLabel (m.relabelCopy (Dict.ofPairs (zip (env.shuffle seed k m.nodeList) m.nodeList)))

/-- `_permute_molecule` at generator state `(seed, k)` returns the `k`-th candidate and advances the
generator by one draw -/
theorem permute_molecule_aux_candidate (env : DepEnv) (rng : Rng) (m : Graph) :
    Tucan.graph_utils._permute_molecule env rng m = .ok (candidate env rng.seed m rng.count, rng.next) := rfl

/-- the code's `enforce_permutation = m.number_of_edges() > 1 and nx.density(m) != 1` -/
def enforced (m : Graph) : Bool := decide (1 < m.numberOfEdges) && m.densityNeOne

theorem enforced_eq_code (m : Graph) :
    truthy (pyGt m.numberOfEdges (1 : Int) && m.densityNeOne) = enforced m := rfl

theorem enforced_iff (m : Graph) : enforced m = true ↔ (m.numberOfEdges > 1 ∧ m.densityNeOne = true) := by
  simp [enforced]

theorem enforced_false_iff (m : Graph) : enforced m = false ↔ (m.numberOfEdges ≤ 1 ∨ m.densityNeOne = false) := by
  rw [← Bool.not_eq_true, enforced_iff]
  constructor
  · intro h
    by_cases h1 : m.numberOfEdges ≤ 1
    · exact Or.inl h1
    · right
      cases hd : m.densityNeOne with
      | false => rfl
      | true => exact absurd ⟨by omega, hd⟩ h
  · rintro (h | h) ⟨h1, h2⟩
    · omega
    · rw [h] at h2; cases h2

/-- the loop's exit test `not (m.edges == m_permu.edges)` on the `k`-th candidate -/
def differs (env : DepEnv) (seed : Val) (m : Graph) (k : Nat) : Bool := !(m.edgesEq (candidate env seed m k))

/-- the `k`-th draw lets the call return: the edge set differs, or a changed edge set is not required -/
def passes (env : DepEnv) (seed : Val) (m : Graph) (k : Nat) : Bool := !enforced m || differs env seed m k

/-! ## the loop -/

/-- the body of the extracted retry loop; state = (generator, `m_permu`, `done`) -/
def loopBody (env : DepEnv) (m : Graph) : Nat → Rng × Graph × Bool → M (ForInStep (Rng × Graph × Bool)) :=
  fun _ s =>
    if (!m.edgesEq s.2.1) = true then .ok (.done (s.1, s.2.1, true))
    else .ok (.yield (s.1.next, candidate env s.1.seed m s.1.count, s.2.2))

/-- the extracted function, with `_permute_molecule` replaced by its value -/
theorem permute_molecule_eq (env : DepEnv) (fuel : Nat) (rng : Rng) (m : Graph) (seed : Val) :
    Tucan.graph_utils.permute_molecule env fuel rng m seed =
      if enforced m = true then
        (forIn (List.range fuel) ((⟨seed, 1⟩ : Rng), candidate env seed m 0, false) (loopBody env m)) >>= fun s =>
          if (!s.2.2) = true then .error Err.fuel else .ok (s.2.1, s.1)
      else .ok (candidate env seed m 0, ⟨seed, 1⟩) := by
  unfold Tucan.graph_utils.permute_molecule
  simp only [permute_molecule_aux_candidate, ok_bind, pure_eq_ok, throw_eq_error, error_bind, enforced_eq_code]
  rfl

/-- the loop stops at the first draw `k ≥ j` whose candidate differs, provided the fuel reaches it -/
theorem loop_first (env : DepEnv) (seed : Val) (m : Graph) (k : Nat) (hk : differs env seed m k = true) :
    ∀ (l : List Nat) (j : Nat), j ≤ k → k - j < l.length →
      (∀ i, j ≤ i → i < k → differs env seed m i = false) →
      forIn l ((⟨seed, j + 1⟩ : Rng), candidate env seed m j, false) (loopBody env m) =
        .ok (⟨seed, k + 1⟩, candidate env seed m k, true) := by
  intro l
  induction l with
  | nil => intro j _ hl; simp at hl
  | cons a l ih =>
    intro j hjk hl hmin
    rw [List.forIn_cons]
    rcases Nat.eq_or_lt_of_le hjk with rfl | hlt
    · have : loopBody env m a ((⟨seed, j + 1⟩ : Rng), candidate env seed m j, false) =
          .ok (.done (⟨seed, j + 1⟩, candidate env seed m j, true)) := by
        unfold differs at hk
        simp only [loopBody, hk, if_true]
      rw [this]; rfl
    · have hd := hmin j (le_refl _) hlt
      have : loopBody env m a ((⟨seed, j + 1⟩ : Rng), candidate env seed m j, false) =
          .ok (.yield (⟨seed, j + 1 + 1⟩, candidate env seed m (j + 1), false)) := by
        unfold differs at hd
        simp only [loopBody, hd, Bool.false_eq_true, if_false]
        rfl
      rw [this]
      simp only [ok_bind]
      refine ih (j + 1) hlt ?_ (fun i hi hik => hmin i (by omega) hik)
      simp only [List.length_cons] at hl
      omega

/-- if none of the next `l.length` draws differs, the loop runs out with `done = false` -/
theorem loop_none (env : DepEnv) (seed : Val) (m : Graph) :
    ∀ (l : List Nat) (j : Nat), (∀ i, j ≤ i → i < j + l.length → differs env seed m i = false) →
      forIn l ((⟨seed, j + 1⟩ : Rng), candidate env seed m j, false) (loopBody env m) =
        .ok (⟨seed, j + l.length + 1⟩, candidate env seed m (j + l.length), false) := by
  intro l
  induction l with
  | nil => intro j _; rfl
  | cons a l ih =>
    intro j hno
    rw [List.forIn_cons]
    have hd := hno j (le_refl _) (by simp)
    have : loopBody env m a ((⟨seed, j + 1⟩ : Rng), candidate env seed m j, false) =
        .ok (.yield (⟨seed, j + 1 + 1⟩, candidate env seed m (j + 1), false)) := by
      unfold differs at hd
      simp only [loopBody, hd, Bool.false_eq_true, if_false]
      rfl
    rw [this]
    simp only [ok_bind]
    rw [ih (j + 1) (fun i hi hil => hno i (by omega) (by simp only [List.length_cons]; omega))]
    simp only [List.length_cons]
    have e : j + 1 + l.length = j + (l.length + 1) := by omega
    rw [e]

/-! ## total correctness relative to the draws -/

/-- no enforcement (at most one bond, or a complete graph): the call returns the first candidate, whatever
the fuel -/
theorem permute_molecule_unenforced (env : DepEnv) (fuel : Nat) (rng : Rng) (m : Graph) (seed : Val)
    (h : enforced m = false) :
    Tucan.graph_utils.permute_molecule env fuel rng m seed = .ok (candidate env seed m 0, ⟨seed, 1⟩) := by
  rw [permute_molecule_eq, h]; rfl

/-- enforcement applies and `k₀` is the first draw whose candidate has a different edge set: with
`fuel > k₀` the call returns exactly that candidate -/
theorem permute_molecule_enforced_returns (env : DepEnv) (fuel : Nat) (rng : Rng) (m : Graph) (seed : Val)
    (he : enforced m = true) (k₀ : Nat) (hk : differs env seed m k₀ = true)
    (hmin : ∀ i < k₀, differs env seed m i = false) (hfuel : k₀ < fuel) :
    Tucan.graph_utils.permute_molecule env fuel rng m seed = .ok (candidate env seed m k₀, ⟨seed, k₀ + 1⟩) := by
  rw [permute_molecule_eq, if_pos he,
    loop_first env seed m k₀ hk (List.range fuel) 0 (Nat.zero_le _) (by simpa using hfuel) (fun i _ hi => hmin i hi)]
  rfl

/-- **Total correctness relative to the generator.**  Let `k₀` be the least draw index that passes
(`hpass`, `hmin`).  For every `fuel > k₀` the call returns, it returns exactly the `k₀`-th candidate, and it
leaves the generator after `k₀ + 1` draws.  The right-hand side mentions `env.shuffle`, `seed`, `m` only:
neither `fuel` nor the incoming generator state `rng` matter (determinism as a theorem). -/
theorem permute_molecule_returns (env : DepEnv) (fuel : Nat) (rng : Rng) (m : Graph) (seed : Val) (k₀ : Nat)
    (hpass : passes env seed m k₀ = true) (hmin : ∀ i < k₀, passes env seed m i = false) (hfuel : k₀ < fuel) :
    Tucan.graph_utils.permute_molecule env fuel rng m seed = .ok (candidate env seed m k₀, ⟨seed, k₀ + 1⟩) := by
  cases he : enforced m with
  | false =>
    have : k₀ = 0 := by
      by_contra hne
      have := hmin 0 (Nat.pos_of_ne_zero hne)
      simp [passes, he] at this
    subst this
    exact permute_molecule_unenforced env fuel rng m seed he
  | true =>
    simp only [passes, he, Bool.not_true, Bool.false_or] at hpass hmin
    exact permute_molecule_enforced_returns env fuel rng m seed he k₀ hpass hmin hfuel

/-- the same with the least index computed (`Nat.find`) from "some draw passes" -/
theorem permute_molecule_returns_find (env : DepEnv) (fuel : Nat) (rng : Rng) (m : Graph) (seed : Val)
    (hex : ∃ k, passes env seed m k = true) (hfuel : Nat.find hex < fuel) :
    Tucan.graph_utils.permute_molecule env fuel rng m seed =
      .ok (candidate env seed m (Nat.find hex), ⟨seed, Nat.find hex + 1⟩) :=
  permute_molecule_returns env fuel rng m seed (Nat.find hex) (Nat.find_spec hex)
    (fun i hi => by simpa using Nat.find_min hex hi) hfuel

/-- **Converse.**  Enforcement applies and none of the first `fuel` draws changes the edge set: the model's
rendering of "does not return" -/
theorem permute_molecule_diverges (env : DepEnv) (fuel : Nat) (rng : Rng) (m : Graph) (seed : Val)
    (he : enforced m = true) (hno : ∀ i < fuel, differs env seed m i = false) :
    Tucan.graph_utils.permute_molecule env fuel rng m seed = .error Err.fuel := by
  rw [permute_molecule_eq, if_pos he,
    loop_none env seed m (List.range fuel) 0 (fun i _ hi => hno i (by simpa using hi))]
  rfl

/-- the converse in terms of `passes` (the side condition `0 < fuel` is needed: with `fuel = 0` and no
enforcement the call does return) -/
theorem permute_molecule_diverges' (env : DepEnv) (fuel : Nat) (rng : Rng) (m : Graph) (seed : Val)
    (hfuel : 0 < fuel) (hno : ∀ i < fuel, passes env seed m i = false) :
    Tucan.graph_utils.permute_molecule env fuel rng m seed = .error Err.fuel := by
  have he : enforced m = true := by
    have := hno 0 hfuel
    simp only [passes, Bool.or_eq_false_iff, Bool.not_eq_false'] at this
    exact this.1
  refine permute_molecule_diverges env fuel rng m seed he (fun i hi => ?_)
  have := hno i hi
  simp only [passes, Bool.or_eq_false_iff] at this
  exact this.2

/-- the call returns iff a changed edge set is not required or one of the first `fuel` draws changes it;
otherwise the result is `Err.fuel` -/
theorem permute_molecule_returns_iff (env : DepEnv) (fuel : Nat) (rng : Rng) (m : Graph) (seed : Val) :
    (∃ r rng', Tucan.graph_utils.permute_molecule env fuel rng m seed = .ok (r, rng')) ↔
      (enforced m = false ∨ ∃ k, k < fuel ∧ differs env seed m k = true) := by
  constructor
  · rintro ⟨r, rng', h⟩
    by_contra hcon
    rw [not_or, Bool.not_eq_false] at hcon
    rw [permute_molecule_diverges env fuel rng m seed hcon.1
      (fun i hi => by
        have := hcon.2
        rw [not_exists] at this
        simpa [hi] using this i)] at h
    cases h
  · rintro (h | ⟨k, hk, hd⟩)
    · exact ⟨_, _, permute_molecule_unenforced env fuel rng m seed h⟩
    · cases he : enforced m with
      | false => exact ⟨_, _, permute_molecule_unenforced env fuel rng m seed he⟩
      | true =>
        have hex : ∃ k, differs env seed m k = true := ⟨k, hd⟩
        exact ⟨_, _, permute_molecule_enforced_returns env fuel rng m seed he (Nat.find hex) (Nat.find_spec hex)
          (fun i hi => by simpa using Nat.find_min hex hi) (lt_of_le_of_lt (Nat.find_min' hex hd) hk)⟩

/-- the result — value or `Err.fuel` — does not depend on the incoming generator state and, once the call
returns, not on the fuel either -/
theorem permute_molecule_fuel_irrelevant (env : DepEnv) (fuel fuel' : Nat) (rng rng₂ : Rng) (m : Graph) (seed : Val)
    {r : Graph} {rng' : Rng} (h : Tucan.graph_utils.permute_molecule env fuel rng m seed = .ok (r, rng'))
    (hle : fuel ≤ fuel') :
    Tucan.graph_utils.permute_molecule env fuel' rng₂ m seed = .ok (r, rng') := by
  cases he : enforced m with
  | false =>
    rw [permute_molecule_unenforced env fuel rng m seed he] at h
    rw [permute_molecule_unenforced env fuel' rng₂ m seed he, h]
  | true =>
    have hex : ∃ k, k < fuel ∧ differs env seed m k = true := by
      rcases (permute_molecule_returns_iff env fuel rng m seed).1 ⟨r, rng', h⟩ with h' | h'
      · rw [he] at h'; cases h'
      · exact h'
    obtain ⟨k, hk, hd⟩ := hex
    have hex' : ∃ k, differs env seed m k = true := ⟨k, hd⟩
    have hlt : Nat.find hex' < fuel := lt_of_le_of_lt (Nat.find_min' hex' hd) hk
    have hmin : ∀ i < Nat.find hex', differs env seed m i = false := fun i hi => by simpa using Nat.find_min hex' hi
    rw [permute_molecule_enforced_returns env fuel rng m seed he _ (Nat.find_spec hex') hmin hlt] at h
    rw [permute_molecule_enforced_returns env fuel' rng₂ m seed he _ (Nat.find_spec hex') hmin (lt_of_lt_of_le hlt hle), h]

/-! ## molecules for which the code does not enforce a changed edge set -/

/-- at most one bond, or a complete graph (`nx.density(m) == 1`): the call returns for **every** fuel
(also `fuel = 0`: the retry loop is not entered), whatever the generator does; under `ShuffleLawful` and
`m.WF` the result has all the properties of `permute_molecule_spec`. -/
theorem permute_molecule_total_small {env : DepEnv} (fuel : Nat) (rng : Rng) {m : Graph} (seed : Val)
    (hsmall : m.numberOfEdges ≤ 1 ∨ m.densityNeOne = false) :
    Tucan.graph_utils.permute_molecule env fuel rng m seed = .ok (candidate env seed m 0, ⟨seed, 1⟩) ∧
    (ShuffleLawful env → m.WF →
      (candidate env seed m 0).WF ∧ (candidate env seed m 0).nodeList.Perm m.nodeList ∧
      (candidate env seed m 0).nodeList.Pairwise (· < ·) ∧ ∃ π, IsRelabel π m (candidate env seed m 0)) := by
  have h := permute_molecule_unenforced env fuel rng m seed ((enforced_false_iff m).2 hsmall)
  refine ⟨h, fun hs hm => ?_⟩
  obtain ⟨a, b, c, d, -⟩ := permute_molecule_spec hs fuel rng hm seed h
  exact ⟨a, b, c, d⟩

/-! ## C16 with the run hypothesis replaced by a hypothesis about the draws -/

/-- **C16, total form.**  Under `ShuffleLawful env` and `m.WF`, if one of the first `fuel` draws passes
(a statement about `env.shuffle`, `seed` and `m` only — not about the call), then the call returns; it
returns the candidate of the least passing draw `k₀`, and that graph has all the properties stated in
`permute_molecule_spec`. -/
theorem C16_total {env : DepEnv} (hs : ShuffleLawful env) (fuel : Nat) (rng : Rng) {m : Graph} (hm : m.WF)
    (seed : Val) (hex : ∃ k, k < fuel ∧ passes env seed m k = true) :
    ∃ (k₀ : Nat) (r : Graph) (rng' : Rng),
      k₀ < fuel ∧ passes env seed m k₀ = true ∧ (∀ i < k₀, passes env seed m i = false) ∧
      r = candidate env seed m k₀ ∧ rng' = ⟨seed, k₀ + 1⟩ ∧
      Tucan.graph_utils.permute_molecule env fuel rng m seed = .ok (r, rng') ∧
      r.WF ∧ r.nodeList.Perm m.nodeList ∧ r.nodeList.Pairwise (· < ·) ∧ (∃ π, IsRelabel π m r) ∧
      (m.numberOfEdges > 1 ∧ m.densityNeOne = true → m.edgesEq r = false) := by
  obtain ⟨k, hk, hp⟩ := hex
  have hex' : ∃ k, passes env seed m k = true := ⟨k, hp⟩
  have hlt : Nat.find hex' < fuel := lt_of_le_of_lt (Nat.find_min' hex' hp) hk
  have hmin : ∀ i < Nat.find hex', passes env seed m i = false := fun i hi => by simpa using Nat.find_min hex' hi
  have h := permute_molecule_returns env fuel rng m seed _ (Nat.find_spec hex') hmin hlt
  exact ⟨Nat.find hex', _, _, hlt, Nat.find_spec hex', hmin, rfl, rfl, h, permute_molecule_spec hs fuel rng hm seed h⟩

/-! ## witness: the hypotheses of `C16_total` are satisfiable, and the retry loop really retries

HDO⁺ (two bonds, not a complete graph: enforcement applies) under a generator whose first shuffle is the
identity and whose later shuffles reverse the list: draw 0 is rejected, draw 1 is accepted. -/

namespace Witness

/-- a concrete environment; only `shuffle` matters here: first draw = identity, later draws = reversal -/
def envR : DepEnv where
  setOrder := fun l => l
  canonicalPermutation := fun _ _ => []
  permuteVertices := fun ig _ => ig
  parseFloat := fun s => .ok ⟨s⟩
  fmt6 := fun _ => []
  shuffle := fun _ k l => if k = 0 then l else l.reverse
  layout := fun _ => Dict.empty
  nowStamp := []
  version := []

theorem envR_shuffle : ShuffleLawful envR := by
  intro s k l
  show (if k = 0 then l else l.reverse).Perm l
  split
  · exact List.Perm.refl l
  · exact List.reverse_perm l

def hAttrs : Attrs := ⟨[("element_symbol", Val.str py!"H"), ("atomic_number", Val.int 1)]⟩
def dAttrs : Attrs := ⟨[("element_symbol", Val.str py!"H"), ("atomic_number", Val.int 1), ("mass", Val.int 2)]⟩
def oAttrs : Attrs := ⟨[("element_symbol", Val.str py!"O"), ("atomic_number", Val.int 8), ("chg", Val.int 1)]⟩

/-- HDO⁺: atoms 0 (H), 1 (D), 2 (O⁺); bonds 0–2 and 1–2 -/
def hdo : Graph :=
  ((((Graph.empty.addNode 0 hAttrs).addNode 1 dAttrs).addNode 2 oAttrs).addEdge 0 2 ⟨[("bond_type", Val.int 1)]⟩).addEdge 1 2
    ⟨[("bond_type", Val.int 1)]⟩

theorem hdo_wf : hdo.WF := by
  have w0 := Graph.WF_addNode Graph.WF_empty 0 (a := hAttrs) (by unfold Dict.WF Dict.keys; decide)
  have w1 := Graph.WF_addNode w0 1 (a := dAttrs) (by unfold Dict.WF Dict.keys; decide)
  have w2 := Graph.WF_addNode w1 2 (a := oAttrs) (by unfold Dict.WF Dict.keys; decide)
  exact Graph.WF_addEdge (Graph.WF_addEdge w2 0 2 _) 1 2 _

def seed7 : Val := Val.int 7

/-- `m` relabelled by the `k`-th draw, before sorting -/
def rel (k : Nat) : Graph :=
  hdo.relabelCopy (Dict.ofPairs (zip (envR.shuffle seed7 k hdo.nodeList) hdo.nodeList))

theorem candidate_eq (k : Nat) : candidate envR seed7 hdo k =
    (Graph.empty.addNodesFromData (sorted (rel k).node.items)).addEdgesFromData (rel k).edgesData := rfl

theorem lt_pair (a b : Int × Attrs) : POrd.lt a b = decide (a.1 < b.1) := by
  rw [Bool.eq_iff_iff, lt_pair_iff]; simp

theorem sorted_rel0 : sorted (rel 0).node.items = [(0, hAttrs), (1, dAttrs), (2, oAttrs)] := by
  have : (rel 0).node.items = [(0, hAttrs), (1, dAttrs), (2, oAttrs)] := by decide
  rw [this]
  simp [sorted, List.mergeSort, List.MergeSort.Internal.splitInTwo, lt_pair]

theorem sorted_rel1 : sorted (rel 1).node.items = [(0, oAttrs), (1, dAttrs), (2, hAttrs)] := by
  have : (rel 1).node.items = [(2, hAttrs), (1, dAttrs), (0, oAttrs)] := by decide
  rw [this]
  simp [sorted, List.mergeSort, List.MergeSort.Internal.splitInTwo, lt_pair]

theorem hdo_enforced : enforced hdo = true := by decide

/-- draw 0 (identity): same edge set, rejected -/
theorem differs0 : differs envR seed7 hdo 0 = false := by
  unfold differs; rw [candidate_eq, sorted_rel0]; decide

/-- draw 1 (reversal): the edges become 0–2, 0–1; accepted -/
theorem differs1 : differs envR seed7 hdo 1 = true := by
  unfold differs; rw [candidate_eq, sorted_rel1]; decide

theorem passes0 : passes envR seed7 hdo 0 = false := by simp [passes, hdo_enforced, differs0]
theorem passes1 : passes envR seed7 hdo 1 = true := by simp [passes, differs1]

/-- `permute_molecule_returns`, instance: least passing draw `k₀ = 1`; with `fuel = 2` the call returns the
second candidate after two draws -/
theorem returns_witness (rng : Rng) :
    Tucan.graph_utils.permute_molecule envR 2 rng hdo seed7 = .ok (candidate envR seed7 hdo 1, ⟨seed7, 2⟩) :=
  permute_molecule_returns envR 2 rng hdo seed7 1 passes1
    (fun i hi => by obtain rfl : i = 0 := by omega
                    exact passes0) (by omega)

/-- `permute_molecule_diverges`, instance: with `fuel = 1` the only draw looked at is rejected -/
theorem diverges_witness (rng : Rng) :
    Tucan.graph_utils.permute_molecule envR 1 rng hdo seed7 = .error Err.fuel :=
  permute_molecule_diverges envR 1 rng hdo seed7 hdo_enforced
    (fun i hi => by obtain rfl : i = 0 := by omega
                    exact differs0)

/-- `C16_total`, instance: every hypothesis is met (`envR_shuffle`, `hdo_wf`, draw 1 passes and `1 < 2`);
enforcement applies, so the last clause of the conclusion is not vacuous -/
theorem C16_total_witness (rng : Rng) : ∃ (r : Graph) (rng' : Rng),
    Tucan.graph_utils.permute_molecule envR 2 rng hdo seed7 = .ok (r, rng') ∧
    r.WF ∧ r.nodeList.Perm hdo.nodeList ∧ r.nodeList.Pairwise (· < ·) ∧ (∃ π, IsRelabel π hdo r) ∧
    hdo.edgesEq r = false := by
  obtain ⟨k₀, r, rng', -, -, -, -, -, h, a, b, c, d, e⟩ :=
    C16_total envR_shuffle 2 rng hdo_wf seed7 ⟨1, by omega, passes1⟩
  exact ⟨r, rng', h, a, b, c, d, e ((enforced_iff hdo).1 hdo_enforced)⟩

/-- `permute_molecule_total_small`, instance: one atom pair with a single bond, `fuel = 0` -/
theorem total_small_witness (rng : Rng) :
    let hd : Graph := ((Graph.empty.addNode 0 hAttrs).addNode 1 dAttrs).addEdge 0 1 ⟨[("bond_type", Val.int 1)]⟩
    Tucan.graph_utils.permute_molecule envR 0 rng hd seed7 = .ok (candidate envR seed7 hd 0, ⟨seed7, 1⟩) := by
  intro hd
  exact (permute_molecule_total_small (env := envR) 0 rng seed7 (m := hd) (Or.inl (by decide))).1

end Witness

end Contracts.RelabelTotal

#print axioms Contracts.RelabelTotal.permute_molecule_returns
#print axioms Contracts.RelabelTotal.permute_molecule_diverges
#print axioms Contracts.RelabelTotal.permute_molecule_returns_iff
#print axioms Contracts.RelabelTotal.permute_molecule_total_small
#print axioms Contracts.RelabelTotal.C16_total
#print axioms Contracts.RelabelTotal.Witness.returns_witness
#print axioms Contracts.RelabelTotal.Witness.diverges_witness
#print axioms Contracts.RelabelTotal.Witness.C16_total_witness
