/-
C08, coordinates included.

`V2000File.read_v2000_eq_v3000` compares the graphs read from a V3000 and from a V2000 rendering of one abstract
molecule on every node attribute EXCEPT the coordinates (`k ∉ coordKeys`): the V3000 reader applies `float()` to the
bare coordinate token `t`, the V2000 reader to the ten-column field `fmt10 t` (the token right-aligned, padded with
blanks on the left), and `DepEnv.parseFloat` is an opaque dependency.

This file closes the gap under one explicit law of CPython's `float()` on `str`, `FloatIgnoresBlanks`: blanks in
front of the argument are ignored (`float("   1.5") == float("1.5")`, and `float("   x")` raises `ValueError` exactly
as `float("x")` does; `Err.value` carries no message). The law speaks about `env.parseFloat` only.

 * `FloatIgnoresBlanks`                  the law
 * `floatModel`, `floatIgnoresBlanks_model`  the law holds for the harness model of `float()` (strip blanks, accept decimal
                                         numerals only), which is not constant
 * `floatIgnoresBlanks_satisfiable`      … hence the law is consistent, with a non-constant model
 * `coordOf_eq_flt`                      key lemma: V2000 field value = V3000 value for a clean token
 * `coordsOK_of_v3ok`                    under the law, `CoordsOK` follows from `V3OK` (the hypothesis `hco` is redundant)
 * `read_v2000_eq_v3000_coords`          `read_v2000_eq_v3000` with `∀ n k, g'.attr n k = g.attr n k` (all keys)
 * `read_v2000_eq_v3000_lists_coords`    the same for V2000 renderings with atom-list lines
 * `coords_witness`                      instance: `Witness2.mol3` / `dress3` / `choice3`, reader environment `envF` (`float()` = `floatModel`)

No `sorry`, no axioms beyond propext / Classical.choice / Quot.sound (printed at the end).
-/
import Contracts.V2000File
import Contracts.Witness2
set_option autoImplicit false
open Py

namespace Contracts.C08Coords

open Contracts.V2000File
open Contracts.V2000 (fieldFloat)
open Contracts.V3000 (Clean bondAttrs)
open Contracts.Reader (Ctab Dress fileLines fltOf IsSep logical atomFields)
open Contracts.FinalLabels (fuelBound)
open Contracts.Pipeline (tucan)

/-! ## 1. the law -/

/-- **law of CPython's `float()` on `str`**: blanks in front of the argument are ignored — the result (a value, or
`ValueError`) is that of the argument without them. (`float()` strips leading and trailing whitespace before
parsing.) A statement about the dependency `float()` alone. -/
def FloatIgnoresBlanks (env : DepEnv) : Prop :=
  ∀ (p t : Str), (∀ c ∈ p, c = ' ') → env.parseFloat (p ++ t) = env.parseFloat t

theorem stripChar_blanks_append (p t : Str) (hp : ∀ c ∈ p, c = ' ') : stripChar (p ++ t) ' ' = stripChar t ' ' := by
  unfold stripChar
  rw [List.dropWhile_append_of_pos (by intro a ha; simp [hp a ha])]

/-- a model of `float()` on `str` (the one of the differential harness, `Py.harnessEnv`): strip blanks; accept an
optional sign followed by a decimal numeral with at most one point; otherwise `ValueError`. The float is carried as
the stripped text. -/
def floatModel (s : Str) : M Flt :=
  let t := stripChar s ' '
  let body := if t.head? = some '-' ∨ t.head? = some '+' then t.drop 1 else t
  if body ≠ [] ∧ body.all (fun c => isAsciiDigit c ∨ c = '.') ∧ (body.filter (· = '.')).length ≤ 1 ∧ body ≠ ['.']
  then pure ⟨t⟩ else throw .value

/-- any environment whose `float()` is `floatModel` obeys the law -/
theorem floatIgnoresBlanks_model (env : DepEnv) (h : env.parseFloat = floatModel) : FloatIgnoresBlanks env := by
  intro p t hp
  rw [h]
  unfold floatModel
  rw [stripChar_blanks_append p t hp]

/-- the environment of the witnesses: `Witness.env0` with `float()` := `floatModel` -/
noncomputable abbrev envF : DepEnv := { Contracts.Witness.env0 with parseFloat := floatModel }

theorem floatIgnoresBlanks_envF : FloatIgnoresBlanks envF := floatIgnoresBlanks_model envF rfl

/-- the law is consistent, and not only by a constant `float()`: in the model `float("1.5")` and `float("2.5")` are
different values, `float("       1.5") = float("1.5")`, `float("")`, `float("   ")` and `float("1.5x")` raise -/
theorem floatIgnoresBlanks_satisfiable : ∃ env : DepEnv, FloatIgnoresBlanks env ∧
    env.parseFloat py!"1.5" = .ok ⟨py!"1.5"⟩ ∧ env.parseFloat py!"2.5" = .ok ⟨py!"2.5"⟩ ∧
    env.parseFloat py!"1.5" ≠ env.parseFloat py!"2.5" ∧
    env.parseFloat py!"       1.5" = env.parseFloat py!"1.5" ∧
    env.parseFloat py!"" = .error .value ∧ env.parseFloat py!"   " = .error .value ∧
    env.parseFloat py!"1.5x" = .error .value :=
  ⟨envF, floatIgnoresBlanks_envF, by decide, by decide, by decide, by decide, by decide, by decide, by decide⟩

/-! ## 2. the key lemma -/

theorem fmt10_eq (t : Str) : ∃ p : Str, (∀ c ∈ p, c = ' ') ∧ fmt10 t = p ++ t :=
  ⟨List.replicate (10 - t.length) ' ', fun _ hc => List.eq_of_mem_replicate hc, rfl⟩

/-- `float()` of the ten-column field = `float()` of the token -/
theorem parseFloat_fmt10 {env : DepEnv} (hF : FloatIgnoresBlanks env) (t : Str) :
    env.parseFloat (fmt10 t) = env.parseFloat t := by
  obtain ⟨p, hp, e⟩ := fmt10_eq t
  rw [e, hF p t hp]

/-- the field of a clean token (non-empty, no whitespace) is not blank -/
theorem fmt10_not_blank {t : Str} (ht : Clean t) : (fmt10 t).all (· = ' ') = false := by
  obtain ⟨hne, hws⟩ := ht
  cases t with
  | nil => exact absurd rfl hne
  | cons c t =>
    have hc : c ≠ ' ' := by
      intro e
      have := hws c (by simp)
      rw [e] at this
      revert this; decide
    rw [Bool.eq_false_iff]
    intro hall
    rw [List.all_eq_true] at hall
    have := hall c (by simp [fmt10, padLeft])
    simp [hc] at this

/-- **key lemma**: for a clean coordinate token accepted by `float()`, the value the V2000 reader stores (`float()` of
the ten-column field) is the value the V3000 reader stores (`float()` of the token) -/
theorem coordOf_eq_flt {env : DepEnv} (hF : FloatIgnoresBlanks env) {t : Str} (ht : Clean t)
    (hf : ∃ f, env.parseFloat t = .ok f) : coordOf env t = Val.flt (fltOf env t) := by
  obtain ⟨f, hf⟩ := hf
  unfold coordOf fieldFloat fltOf
  rw [if_neg (by rw [fmt10_not_blank ht]; simp), parseFloat_fmt10 hF, hf]
  rfl

/-- under the law, a token accepted by `float()` gives a ten-column field accepted by the V2000 reader -/
theorem fieldFloat_fmt10_ok {env : DepEnv} (hF : FloatIgnoresBlanks env) {t : Str}
    (hf : ∃ f, env.parseFloat t = .ok f) : ∃ v, fieldFloat env (fmt10 t) = .ok v := by
  obtain ⟨f, hf⟩ := hf
  unfold fieldFloat
  split
  · exact ⟨_, rfl⟩
  · rw [parseFloat_fmt10 hF, hf]; exact ⟨_, rfl⟩

/-- under the law the hypothesis `CoordsOK` of the V2000 contracts follows from `V3OK` -/
theorem coordsOK_of_v3ok {env : DepEnv} (hF : FloatIgnoresBlanks env) {m : AMol} (h3 : V3OK env m) : CoordsOK env m := by
  intro a ha t ht
  obtain ⟨hx, hy, hz⟩ := h3.floats a ha
  simp only [List.mem_cons, List.not_mem_nil, or_false] at ht
  rcases ht with rfl | rfl | rfl
  · exact fieldFloat_fmt10_ok hF hx
  · exact fieldFloat_fmt10_ok hF hy
  · exact fieldFloat_fmt10_ok hF hz

/-- the coordinate tokens of a molecule whose V3000 rendering is well-formed are clean -/
theorem clean_coords {m : AMol} {D : Dress} (hok : D.OK (toCtab m)) {i : Nat} {a : AAtom} (ha : m.atoms[i]? = some a) :
    Clean a.x ∧ Clean a.y ∧ Clean a.z := by
  have hl : toAtomLine a i ∈ (toCtab m).atoms := by
    apply List.mem_of_getElem? (i := i)
    rw [toCtab_atoms_getElem?, ha]; rfl
  have hmem : atomFields (toAtomLine a i) ∈ logical (toCtab m) D := by
    simp only [logical, List.mem_cons, List.mem_append, List.mem_map]
    exact Or.inr (Or.inr (Or.inr (Or.inl ⟨_, hl, rfl⟩)))
  have hc := hok.clean _ hmem
  exact ⟨hc a.x (by simp [atomFields, toAtomLine]), hc a.y (by simp [atomFields, toAtomLine]),
    hc a.z (by simp [atomFields, toAtomLine])⟩

/-! ## 3. the two readers agree, coordinates included -/

/-- **C08 with coordinates.** Under the law `FloatIgnoresBlanks` of `float()`, and the hypotheses of
`V2000File.read_v2000_eq_v3000`: every V3000 rendering and every V2000 rendering of a well-formed abstract molecule
are read as graphs with the same nodes and the same value of EVERY node attribute (the coordinates included), the
same adjacency, the same edge data, the same TUCAN string. -/
theorem read_v2000_eq_v3000_coords {env₁ env₂ : DepEnv} (envr : DepEnv) (hs₁ : env₁.SetLawful) (hs₂ : env₂.SetLawful)
    (hb : BlissLawful env₁) (hcp : env₂.canonicalPermutation = env₁.canonicalPermutation)
    (hpv : env₂.permuteVertices = env₁.permuteVertices)
    (hF : FloatIgnoresBlanks envr)
    (m : AMol) (hm : m.WF) (hne : m.atoms ≠ [])
    -- the V3000 rendering
    (rf : Nat) (sep : Str) (hsep : IsSep sep) (h3 : V3OK envr m) (D : Dress) (hok : D.OK (toCtab m))
    (hnbD : D.NoBreaks (toCtab m)) (hrf : ((fileLines (toCtab m) D).drop 4).length + 1 ≤ rf)
    -- the V2000 rendering
    (rf' : Nat) (sep' : Str) (hsep' : IsSep sep') (c : Choice) (hc : c.OK m) (hnb : c.NoBreaks m)
    (hco : CoordsOK envr m) :
    ∃ g g', Tucan.molfile_reader.graph_from_molfile_text envr rf (join sep (fileLines (toCtab m) D ++ [[]])) = .ok g ∧
      Tucan.molfile_reader.graph_from_molfile_text envr rf' (renderV2000 sep' m c) = .ok g' ∧
      g'.nodeList = g.nodeList ∧
      (∀ n k, g'.attr n k = g.attr n k) ∧
      (∀ x y, y ∈ g'.nbrs x ↔ y ∈ g.nbrs x) ∧
      ((∀ b ∈ m.bonds, ∀ b' ∈ m.bonds, b.SamePair b' → b'.typ = b.typ) → ∀ x y, g'.edgeAttrs x y = g.edgeAttrs x y) ∧
      fuelBound g' = fuelBound g ∧
      ∀ fuel ≥ fuelBound g, ∀ fuel' ≥ fuelBound g, ∃ s, tucan env₁ fuel g = .ok s ∧ tucan env₂ fuel' g' = .ok s := by
  obtain ⟨g, g', hg, hg', hnl, _, hnbrs, hedge, hfb, hstr⟩ := read_v2000_eq_v3000 envr hs₁ hs₂ hb hcp hpv m hm hne
    rf sep hsep h3 D hok hnbD hrf rf' sep' hsep' c hc hnb hco
  obtain ⟨g₁, hg₁, _, _, ng, ag, _⟩ := read_v3000_render envr rf sep hsep m hm h3 D hok hnbD hrf
  obtain ⟨g₁', hg₁', _, _, _, ag', _⟩ := read_v2000_render envr rf' sep' hsep' m hm c hc hnb hco
  obtain rfl : g₁ = g := Except.ok.inj (hg₁.symm.trans hg)
  obtain rfl : g₁' = g' := Except.ok.inj (hg₁'.symm.trans hg')
  refine ⟨g₁, g₁', hg, hg', hnl, ?_, hnbrs, hedge, hfb, hstr⟩
  intro n k
  by_cases hn : n ∈ g₁.nodeList
  · rw [ng, Contracts.Parser.mem_range] at hn
    obtain ⟨i, rfl⟩ := Int.eq_ofNat_of_zero_le hn.1
    have hi : i < m.atoms.length := by exact_mod_cast hn.2
    have ha : m.atoms[i]? = some m.atoms[i] := by simp [hi]
    obtain ⟨cx, cy, cz⟩ := clean_coords hok ha
    obtain ⟨fx, fy, fz⟩ := h3.floats _ (List.getElem_mem hi)
    rw [ag i _ ha k, ag' i _ ha k, coordOf_eq_flt hF cx fx, coordOf_eq_flt hF cy fy, coordOf_eq_flt hF cz fz]
  · rw [Contracts.RoundTrip.attr_eq_none_of_not_mem hn, Contracts.RoundTrip.attr_eq_none_of_not_mem (hnl ▸ hn)]

/-- the same without the hypothesis `CoordsOK` (it follows from `V3OK` under the law) -/
theorem read_v2000_eq_v3000_coords' {env₁ env₂ : DepEnv} (envr : DepEnv) (hs₁ : env₁.SetLawful) (hs₂ : env₂.SetLawful)
    (hb : BlissLawful env₁) (hcp : env₂.canonicalPermutation = env₁.canonicalPermutation)
    (hpv : env₂.permuteVertices = env₁.permuteVertices)
    (hF : FloatIgnoresBlanks envr)
    (m : AMol) (hm : m.WF) (hne : m.atoms ≠ [])
    (rf : Nat) (sep : Str) (hsep : IsSep sep) (h3 : V3OK envr m) (D : Dress) (hok : D.OK (toCtab m))
    (hnbD : D.NoBreaks (toCtab m)) (hrf : ((fileLines (toCtab m) D).drop 4).length + 1 ≤ rf)
    (rf' : Nat) (sep' : Str) (hsep' : IsSep sep') (c : Choice) (hc : c.OK m) (hnb : c.NoBreaks m) :
    ∃ g g', Tucan.molfile_reader.graph_from_molfile_text envr rf (join sep (fileLines (toCtab m) D ++ [[]])) = .ok g ∧
      Tucan.molfile_reader.graph_from_molfile_text envr rf' (renderV2000 sep' m c) = .ok g' ∧
      g'.nodeList = g.nodeList ∧
      (∀ n k, g'.attr n k = g.attr n k) ∧
      (∀ x y, y ∈ g'.nbrs x ↔ y ∈ g.nbrs x) ∧
      ((∀ b ∈ m.bonds, ∀ b' ∈ m.bonds, b.SamePair b' → b'.typ = b.typ) → ∀ x y, g'.edgeAttrs x y = g.edgeAttrs x y) ∧
      fuelBound g' = fuelBound g ∧
      ∀ fuel ≥ fuelBound g, ∀ fuel' ≥ fuelBound g, ∃ s, tucan env₁ fuel g = .ok s ∧ tucan env₂ fuel' g' = .ok s :=
  read_v2000_eq_v3000_coords envr hs₁ hs₂ hb hcp hpv hF m hm hne rf sep hsep h3 D hok hnbD hrf rf' sep' hsep' c hc hnb
    (coordsOK_of_v3ok hF h3)

/-- `read_v2000_eq_v3000_coords` for V2000 renderings with atom-list lines -/
theorem read_v2000_eq_v3000_lists_coords {env₁ env₂ : DepEnv} (envr : DepEnv) (hs₁ : env₁.SetLawful)
    (hs₂ : env₂.SetLawful) (hb : BlissLawful env₁) (hcp : env₂.canonicalPermutation = env₁.canonicalPermutation)
    (hpv : env₂.permuteVertices = env₁.permuteVertices)
    (hF : FloatIgnoresBlanks envr)
    (m : AMol) (hm : m.WF) (hne : m.atoms ≠ [])
    (rf : Nat) (sep : Str) (hsep : IsSep sep) (h3 : V3OK envr m) (D : Dress) (hok : D.OK (toCtab m))
    (hnbD : D.NoBreaks (toCtab m)) (hrf : ((fileLines (toCtab m) D).drop 4).length + 1 ≤ rf)
    (rf' : Nat) (sep' : Str) (hsep' : IsSep sep') (c : ChoiceL) (hc : c.toChoice.OK m) (hnb : c.toChoice.NoBreaks m)
    (hl : c.ListsOK) (hco : CoordsOK envr m) :
    ∃ g g', Tucan.molfile_reader.graph_from_molfile_text envr rf (join sep (fileLines (toCtab m) D ++ [[]])) = .ok g ∧
      Tucan.molfile_reader.graph_from_molfile_text envr rf' (renderV2000L sep' m c) = .ok g' ∧
      g'.nodeList = g.nodeList ∧
      (∀ n k, g'.attr n k = g.attr n k) ∧
      (∀ x y, y ∈ g'.nbrs x ↔ y ∈ g.nbrs x) ∧
      ((∀ b ∈ m.bonds, ∀ b' ∈ m.bonds, b.SamePair b' → b'.typ = b.typ) → ∀ x y, g'.edgeAttrs x y = g.edgeAttrs x y) ∧
      fuelBound g' = fuelBound g ∧
      ∀ fuel ≥ fuelBound g, ∀ fuel' ≥ fuelBound g, ∃ s, tucan env₁ fuel g = .ok s ∧ tucan env₂ fuel' g' = .ok s := by
  rw [lists_irrelevant envr rf' sep' hsep' m hm c hc hnb hco hl]
  exact read_v2000_eq_v3000_coords envr hs₁ hs₂ hb hcp hpv hF m hm hne rf sep hsep h3 D hok hnbD hrf rf' sep' hsep'
    c.toChoice hc hnb hco

/-! ## 4. the hypotheses are satisfiable: an instance -/

section Witness
open Contracts.Witness (env0 env1 env0_set env1_set env0_bliss env1_cp env1_pv)
open Contracts.Witness2 (mol3 mol3_wf choice3 choice3_ok choice3_noBreaks dress3 dress3_ok dress3_noBreaks)
open Contracts.Reader (isSep_crlf isSep_lf)

/- the reader environment of the instance is `envF` (not `env0`, whose `float()` keeps the argument text as it is
and so does not obey the law) -/

theorem mol3_v3ok_envF : V3OK envF mol3 where
  floats := by
    intro a ha
    simp only [mol3, List.mem_cons, List.not_mem_nil, or_false] at ha
    rcases ha with rfl | rfl | rfl <;> exact ⟨⟨_, rfl⟩, ⟨_, rfl⟩, ⟨_, rfl⟩⟩
  noOpt := Contracts.Witness2.mol3_v3ok.noOpt

/-- **`read_v2000_eq_v3000_coords`, instance**: the V3000 file and the V2000 file of `Witness2.read_v2000_eq_v3000_witness`,
read with a `float()` that obeys the law, give node for node the same attributes — coordinates included; e.g. the
`x_coord` of node 0 is the float of `1.2000` in both, its `y_coord` the float of `-0.5` -/
theorem coords_witness :
    ∃ g g', Tucan.molfile_reader.graph_from_molfile_text envF (((fileLines (toCtab mol3) dress3).drop 4).length + 1)
        (join py!"\n" (fileLines (toCtab mol3) dress3 ++ [[]])) = .ok g ∧
      Tucan.molfile_reader.graph_from_molfile_text envF 0 (renderV2000 py!"\r\n" mol3 choice3) = .ok g' ∧
      g'.nodeList = g.nodeList ∧
      (∀ n k, g'.attr n k = g.attr n k) ∧
      g'.attr 0 "x_coord" = some (Val.flt ⟨py!"1.2000"⟩) ∧ g.attr 0 "x_coord" = some (Val.flt ⟨py!"1.2000"⟩) ∧
      g'.attr 0 "y_coord" = some (Val.flt ⟨py!"-0.5"⟩) ∧
      (∀ x y, y ∈ g'.nbrs x ↔ y ∈ g.nbrs x) ∧
      ∃ s, tucan env0 (fuelBound g) g = .ok s ∧ tucan env1 (fuelBound g) g' = .ok s := by
  have hF : FloatIgnoresBlanks envF := floatIgnoresBlanks_envF
  obtain ⟨g, g', e, e', hn, ha, hb, _, _, hs⟩ :=
    read_v2000_eq_v3000_coords' envF env0_set env1_set env0_bliss env1_cp env1_pv hF mol3 mol3_wf (by decide)
      _ py!"\n" isSep_lf mol3_v3ok_envF dress3 dress3_ok dress3_noBreaks (le_refl _)
      0 py!"\r\n" isSep_crlf choice3 choice3_ok choice3_noBreaks
  obtain ⟨g₁, hg₁, _, _, _, ag, _⟩ := read_v3000_render envF _ py!"\n" isSep_lf mol3 mol3_wf mol3_v3ok_envF dress3
    dress3_ok dress3_noBreaks (le_refl _)
  obtain rfl : g₁ = g := Except.ok.inj (hg₁.symm.trans e)
  have hx : g₁.attr 0 "x_coord" = some (Val.flt ⟨py!"1.2000"⟩) := by
    have := ag 0 _ (by rfl : mol3.atoms[0]? = some _) "x_coord"
    rw [show ((0 : Nat) : Int) = 0 from rfl] at this
    rw [this]; decide
  have hy : g₁.attr 0 "y_coord" = some (Val.flt ⟨py!"-0.5"⟩) := by
    have := ag 0 _ (by rfl : mol3.atoms[0]? = some _) "y_coord"
    rw [show ((0 : Nat) : Int) = 0 from rfl] at this
    rw [this]; decide
  exact ⟨g₁, g', e, e', hn, ha, (ha 0 "x_coord").trans hx, hx, (ha 0 "y_coord").trans hy, hb,
    hs _ (le_refl _) _ (le_refl _)⟩

end Witness

end Contracts.C08Coords

#print axioms Contracts.C08Coords.floatIgnoresBlanks_satisfiable
#print axioms Contracts.C08Coords.coordOf_eq_flt
#print axioms Contracts.C08Coords.coordsOK_of_v3ok
#print axioms Contracts.C08Coords.read_v2000_eq_v3000_coords
#print axioms Contracts.C08Coords.read_v2000_eq_v3000_coords'
#print axioms Contracts.C08Coords.read_v2000_eq_v3000_lists_coords
#print axioms Contracts.C08Coords.coords_witness
