/-
Contracts.Serialize — the three string writers of the serializer against spec functions written
from the layout rules of property C05 (Hill-order formula equal to the element counts; each bond
once as (a-b), a<b, ascending, 1-based; one attribute block per labelled atom in ascending index
order, mass before rad).
-/
import Generated.Serialization
import Spec.Order
set_option autoImplicit false
open Py

namespace Contracts.Serialize

/-! ### generic helpers -/

/-- a `for` loop whose body never fails, breaks or returns is a left fold -/
theorem forIn_yield {α σ : Type} (l : List α) (body : α → σ → M (ForInStep σ)) (g : σ → α → σ)
    (h : ∀ x s, body x s = .ok (.yield (g s x))) (acc : σ) :
    forIn l acc body = .ok (l.foldl g acc) := by
  induction l generalizing acc with
  | nil => simp
  | cons x l ih => simp only [List.forIn_cons, h, ok_bind, ih, List.foldl_cons]

theorem foldl_append_flatten {α : Type} (f : α → Str) (l : List α) (acc : Str) :
    l.foldl (fun s x => s ++ f x) acc = acc ++ (l.map f).flatten := by
  induction l generalizing acc with
  | nil => simp
  | cons x l ih => simp [ih]

/-! ### edge list -/
def normEdge (e : Int × Int) : Int × Int := (min e.1 e.2, max e.1 e.2)
def renderEdge (e : Int × Int) : Str :=
  py!"(" ++ pyStrInt (e.1 + 1) ++ py!"-" ++ pyStrInt (e.2 + 1) ++ py!")"
def edgeListSpec (m : Graph) : Str := ((sorted (m.edges.map normEdge)).map renderEdge).flatten

theorem join_nil (l : List Str) : join [] l = l.flatten := by
  unfold join List.intercalate
  induction l with
  | nil => rfl
  | cons a l ih =>
    cases l with
    | nil => simp
    | cons b l => simpa [List.intersperse] using ih

/-- the two-element list of a pair -/
def pairList (p : Int × Int) : List Int := [p.1, p.2]

theorem sorted_pair (e : Int × Int) : sorted [e.1, e.2] = pairList (normEdge e) := by
  obtain ⟨a, b⟩ := e
  simp only [sorted, List.mergeSort, POrd.lt, pairList, normEdge]
  simp [List.merge]
  split <;> simp <;> omega

theorem lt_pairList (p q : Int × Int) : POrd.lt (pairList p) (pairList q) = POrd.lt p q := by
  obtain ⟨a, b⟩ := p
  obtain ⟨c, d⟩ := q
  simp only [POrd.lt, pairList, lexLt]
  by_cases h1 : a < c <;> by_cases h2 : c < a <;> by_cases h3 : b < d <;> simp [*]

theorem sorted_map_pairList (l : List (Int × Int)) :
    sorted (l.map pairList) = (sorted l).map pairList := by
  unfold sorted
  rw [List.map_mergeSort]
  intro a _ b _
  rw [lt_pairList]

theorem write_edge_list_ok (env : DepEnv) (m : Graph) :
    Tucan.serialization._write_edge_list env m = .ok (edgeListSpec m) := by
  unfold Tucan.serialization._write_edge_list
  rw [listComp_ok _ _ (fun e => some (pairList (normEdge e)))
    (by intro e _; simp only [pyIter_pair, pure_eq_ok, sorted_pair])]
  simp only [ok_bind, pyIter_list, List.filterMap_eq_map']
  have h : List.map (fun x => pairList (normEdge x)) m.edges = (m.edges.map normEdge).map pairList := by
    simp [List.map_map]
  rw [h, sorted_map_pairList,
    listComp_ok _ _ (fun l => some (renderEdge (l.headD 0, (l.tail).headD 0)))]
  · simp only [ok_bind, pure_eq_ok, join_nil, edgeListSpec, List.filterMap_eq_map', List.map_map]
    rfl
  · intro l hl
    obtain ⟨p, _, rfl⟩ := List.mem_map.1 hl
    rfl

/-- layout: every printed tuple has `a < b` when the graph has no self-loop -/
theorem edge_list_lt (m : Graph) (hloop : ∀ e ∈ m.edges, e.1 ≠ e.2) :
    ∀ e ∈ sorted (m.edges.map normEdge), e.1 < e.2 := by
  intro e he
  rw [sorted, List.mem_mergeSort] at he
  obtain ⟨p, hp, rfl⟩ := List.mem_map.1 he
  have := hloop p hp
  simp only [normEdge]
  omega

/-- layout: tuples strictly ascending (hence each bond exactly once) when the graph lists each
unordered pair once -/
theorem edge_list_strict (m : Graph) (hnodup : (m.edges.map normEdge).Nodup) :
    (sorted (m.edges.map normEdge)).Pairwise (fun a b => POrd.lt a b = true) :=
  sorted_strict_of_nodup hnodup

/-! ### attribute blocks -/
def renderProps (attrs : Attrs) : List Str :=
  [("mass", py!"mass"), ("rad", py!"rad")].filterMap (fun (p : String × Str) =>
    (attrs.get? p.1).map (fun v => p.2 ++ py!"=" ++ pyStr v))
def renderBlock (p : Int × Attrs) : Str :=
  if renderProps p.2 = [] then [] else
    py!"(" ++ pyStrInt (p.1 + 1) ++ py!":" ++ join py!"," (renderProps p.2) ++ py!")"
def nodeAttrsSpec (m : Graph) : Str := ((sortedKey Prod.fst m.nodesData).map renderBlock).flatten

theorem sorted_nodes_eq (l : List (Int × Attrs)) : sorted l = sortedKey Prod.fst l := by
  unfold sorted sortedKey
  congr 1
  funext a b
  simp only [POrd.lt]
  by_cases h1 : b.1 < a.1 <;> by_cases h2 : a.1 < b.1 <;> simp [*]

theorem getItem_dict {ν} (d : Dict String ν) (k : String) :
    getItem d k = match d.get? k with | some v => Except.ok v | Option.none => Except.error Err.key := rfl

theorem available_attrs_ok (attrs : Attrs) :
    (listComp (pyIter Tucan.Consts._SERIALIZER_NODE_ATTRIBUTE_MAPPING) (fun attr => do
      if (pyContains attr attrs) then (do return some (pyStr (← getItem Tucan.Consts._SERIALIZER_NODE_ATTRIBUTE_MAPPING attr) ++ py!"=" ++ pyStr (← getItem attrs attr))) else return Option.none))
    = .ok (renderProps attrs) := by
  simp only [pyIter_dict, Tucan.Consts._SERIALIZER_NODE_ATTRIBUTE_MAPPING, List.map, listComp, pyContains_dict,
    Dict.contains, renderProps, List.filterMap, getItem_dict]
  have e1 : Dict.get? (⟨[("mass", py!"mass"), ("rad", py!"rad")]⟩ : Dict String Str) "mass" = some py!"mass" := by decide
  have e2 : Dict.get? (⟨[("mass", py!"mass"), ("rad", py!"rad")]⟩ : Dict String Str) "rad" = some py!"rad" := by decide
  simp only [e1, e2]
  cases attrs.get? "mass" <;> cases attrs.get? "rad" <;> rfl

theorem write_node_attributes_ok (env : DepEnv) (m : Graph) :
    Tucan.serialization._write_node_attributes env m = .ok (nodeAttrsSpec m) := by
  unfold Tucan.serialization._write_node_attributes
  simp only [pure_eq_ok, pyIter_list]
  rw [forIn_yield (g := fun s x => s ++ renderBlock x)]
  · simp only [ok_bind, foldl_append_flatten, nodeAttrsSpec, sorted_nodes_eq, List.nil_append]
  · intro x s
    have h := available_attrs_ok x.2
    simp only [pure_eq_ok] at h ⊢
    simp only [h, ok_bind]
    by_cases hp : renderProps x.2 = []
    · simp [hp, truthy, Truthy.truthy, renderBlock]
    · have : (renderProps x.2).isEmpty = false := by simpa using hp
      simp [truthy, Truthy.truthy, this, renderBlock, hp, pyStr, PyStr.pyStr]

/-! ### sum formula -/
def renderElem (s : Str) (n : Int) : Str := if n > 1 then s ++ pyStrInt n else s
/-- distinct symbols in Hill order: C, then H, then the rest alphabetically if carbon is present;
all alphabetically otherwise -/
def hillOrder (syms : List Str) : List Str :=
  let d := syms.dedup
  if py!"C" ∈ d then
    py!"C" :: ((if py!"H" ∈ d then [py!"H"] else []) ++ sorted (d.filter (fun s => s ≠ py!"C" ∧ s ≠ py!"H")))
  else sorted d
def symbolsOf (m : Graph) : List Str := (Dict.values (Graph.getNodeAttributes m "element_symbol")).map Val.asStr
def sumFormulaSpec (m : Graph) : Str :=
  ((hillOrder (symbolsOf m)).map (fun s => renderElem s ((symbolsOf m).count s))).flatten

section dict
variable {κ : Type} [DecidableEq κ]

theorem lookup_map_pair (c : κ → Int) (ks : List κ) (k : κ) :
    List.lookup k (ks.map (fun s => (s, c s))) = if k ∈ ks then some (c k) else none := by
  induction ks with
  | nil => simp
  | cons a ks ih =>
    simp only [List.map_cons, List.lookup_cons, ih, List.mem_cons]
    by_cases h : k = a
    · subst h; simp
    · have : (k == a) = false := by simpa using h
      simp [this, h]

theorem counter_snoc (xs : List κ) (x : κ) :
    counter (xs ++ [x]) = (counter xs).set x ((counter xs).getD x 0 + 1) := by
  simp [counter, List.foldl_append]

theorem counter_items (xs : List κ) : ∃ ks : List κ, ks.Nodup ∧ (∀ s, s ∈ ks ↔ s ∈ xs) ∧
    (counter xs).items = ks.map (fun s => (s, (xs.count s : Int))) := by
  induction xs using List.reverseRecOn with
  | nil => exact ⟨[], by simp, by simp, rfl⟩
  | append_singleton l a ih =>
    obtain ⟨ks, hnd, hmem, hit⟩ := ih
    have hget : (counter l).get? a = if a ∈ ks then some (l.count a : Int) else none := by
      simp only [Dict.get?, hit, lookup_map_pair]
    rw [counter_snoc]
    by_cases ha : a ∈ ks
    · refine ⟨ks, hnd, ?_, ?_⟩
      · intro s; simp only [hmem, List.mem_append, List.mem_singleton]
        constructor
        · exact Or.inl
        · rintro (h | rfl)
          · exact h
          · exact (hmem _).1 ha
      · simp only [Dict.set, Dict.contains, Dict.getD, hget, ha, if_true, Option.isSome_some, hit, List.map_map,
          Option.getD_some]
        apply List.map_congr_left
        intro s _
        by_cases hs : s = a
        · subst hs; simp [List.count_append]
        · simp [hs, Ne.symm hs, List.count_append]
    · refine ⟨ks ++ [a], ?_, ?_, ?_⟩
      · rw [List.nodup_append]
        refine ⟨hnd, by simp, ?_⟩
        intro x hx y hy
        simp only [List.mem_singleton] at hy
        subst hy
        rintro rfl
        exact ha hx
      · intro s; simp [hmem]
      · have hal : a ∉ l := fun h => ha ((hmem _).2 h)
        simp only [Dict.set, Dict.contains, Dict.getD, hget, ha, if_false, Option.isSome_none, hit,
          Option.getD_none, List.map_append, List.map_cons, List.map_nil, Bool.false_eq_true]
        refine congrArg₂ (· ++ ·) ?_ ?_
        · apply List.map_congr_left
          intro s hs
          have : a ≠ s := fun h => ha (h ▸ hs)
          simp [List.count_append, this]
        · simp [List.count_append, List.count_eq_zero_of_not_mem hal]

theorem count_cast_pos (xs : List κ) (a : κ) (h : a ∈ xs) : (0 : Int) < (xs.count a : Int) := by
  have := List.count_pos_iff.2 h; omega

theorem ofPairs_items_aux (c : κ → Int) (ks2 ks1 : List κ) (d : Dict κ Int)
    (hd : d.items = ks1.map (fun s => (s, c s))) (h : (ks1 ++ ks2).Nodup) :
    ((ks2.map (fun s => (s, c s))).foldl (fun d p => d.set p.1 p.2) d).items
      = (ks1 ++ ks2).map (fun s => (s, c s)) := by
  induction ks2 generalizing ks1 d with
  | nil => simp [hd]
  | cons k ks2 ih =>
    have hk : k ∉ ks1 := by
      intro hmem
      exact (List.nodup_append.1 h).2.2 _ hmem k (by simp) rfl
    have hc : d.contains k = false := by
      simp [Dict.contains, Dict.get?, hd, lookup_map_pair, hk]
    simp only [List.map_cons, List.foldl_cons]
    rw [ih (ks1 ++ [k])]
    · simp
    · simp [Dict.set, hc, hd]
    · simpa using h

theorem ofPairs_items (c : κ → Int) (ks : List κ) (h : ks.Nodup) :
    (Dict.ofPairs (ks.map (fun s => (s, c s)))).items = ks.map (fun s => (s, c s)) := by
  have := ofPairs_items_aux c ks [] Dict.empty rfl (by simpa using h)
  simpa [Dict.ofPairs] using this

theorem erase_items (c : κ → Int) (ks : List κ) (d : Dict κ Int) (k : κ)
    (hd : d.items = ks.map (fun s => (s, c s))) :
    (d.erase k).items = (ks.filter (fun s => s ≠ k)).map (fun s => (s, c s)) := by
  simp only [Dict.erase, hd, List.filter_map]
  rfl

end dict

/-- sorting `(key, value)` pairs built from a function of the key is sorting the keys -/
theorem sorted_map_pair (c : Str → Int) (ks : List Str) :
    sorted (ks.map (fun s => (s, c s))) = (sorted ks).map (fun s => (s, c s)) := by
  unfold sorted
  rw [List.map_mergeSort]
  intro a _ b _
  simp only [POrd.lt]
  by_cases hab : a = b
  · subst hab
    have h1 := LawfulPOrd.irrefl a
    simp only [POrd.lt] at h1
    simp [h1]
  · rcases LawfulPOrd.total a b hab with h | h
    · simp only [POrd.lt] at h
      simp [h]
    · simp only [POrd.lt] at h
      simp [h]

/-- the final loop of `_write_sum_formula` over a dict whose items are `(key, c key)` -/
theorem tail_loop (c : Str → Int) (ks : List Str) (hnd : ks.Nodup) (d : Dict Str Int)
    (hd : d.items = ks.map (fun s => (s, c s))) (acc : Str) :
    (forIn (Dict.ofPairs (sorted d.items)).items acc fun x __s =>
      (Except.ok (ForInStep.yield (pyAdd __s (if pyGt x.2 (1 : Int) = true then pyStr x.1 ++ pyStr x.2 else x.1))) : M _))
    = .ok (acc ++ ((sorted ks).map (fun s => renderElem s (c s))).flatten) := by
  have hnd' : (sorted ks).Nodup := (List.mergeSort_perm ks _).nodup_iff.2 hnd
  rw [hd, sorted_map_pair, ofPairs_items _ _ hnd',
    forIn_yield (g := fun s x => s ++ renderElem x.1 x.2) (h := ?_), foldl_append_flatten, List.map_map]
  · rfl
  · intro x s
    simp [renderElem, pyGt, PyCmp.gt, POrd.lt, pyStr, PyStr.pyStr]

theorem get?_of_items (c : Str → Int) (ks : List Str) (d : Dict Str Int)
    (hd : d.items = ks.map (fun s => (s, c s))) (k : Str) :
    d.get? k = if k ∈ ks then some (c k) else none := by
  simp only [Dict.get?, hd, lookup_map_pair]
  congr

theorem truthy_some_pos (n : Int) (h : 0 < n) : truthy (some n) = true := by
  simp only [truthy, Truthy.truthy]
  exact decide_eq_true (by omega)
theorem truthy_none_int : truthy (Option.none : Option Int) = false := rfl
theorem pyGt_some_one (n : Int) : pyGt (some n) (1 : Int) = decide (n > 1) := rfl
theorem pyStr_some_int (n : Int) : pyStr (some n) = pyStrInt n := rfl

theorem filter_CH (l : List Str) :
    (l.filter (fun s => s ≠ py!"C")).filter (fun s => s ≠ py!"H")
      = l.filter (fun s => s ≠ py!"C" ∧ s ≠ py!"H") := by
  rw [List.filter_filter]
  congr 1
  funext s
  by_cases h1 : s = py!"C" <;> by_cases h2 : s = py!"H" <;> simp [h1, h2]

/-- `List.count` on strings does not depend on which of the two (lawful) `BEq` instances is used -/
theorem count_inst (xs : List Str) (s : Str) :
    xs.count s = @List.count Str instBEqOfDecidableEq s xs := by
  unfold List.count
  apply List.countP_congr
  intro x _
  simp

theorem write_sum_formula_ok (env : DepEnv) (m : Graph) :
    Tucan.serialization._write_sum_formula env m = .ok (sumFormulaSpec m) := by
  unfold Tucan.serialization._write_sum_formula sumFormulaSpec
  simp only [pure_eq_ok, count_inst]
  have hx : List.map Val.asStr (Graph.getNodeAttributes m "element_symbol").values = symbolsOf m := rfl
  rw [hx]
  generalize symbolsOf m = xs
  obtain ⟨ks, hnd, hmem, hit⟩ := counter_items xs
  have hperm : ks.Perm xs.dedup :=
    (List.perm_ext_iff_of_nodup hnd (List.nodup_dedup xs)).2 (fun a => by simp [hmem])
  have hC := get?_of_items _ _ _ hit py!"C"
  have hitC := erase_items _ _ _ py!"C" hit
  have hH := get?_of_items _ _ _ hitC py!"H"
  have hitH := erase_items _ _ _ py!"H" hitC
  have pop1 : ∀ (d : Dict Str Int) k, (d.pop? k).1 = d.get? k := fun _ _ => rfl
  have pop2 : ∀ (d : Dict Str Int) k, (d.pop? k).2 = d.erase k := fun _ _ => rfl
  simp only [pop1, pop2]
  rw [tail_loop _ _ ((hnd.filter _).filter _) _ hitH, tail_loop _ _ ((hnd.filter _).filter _) _ hitH,
    tail_loop _ _ (hnd.filter _) _ hitC]
  have hsort : ∀ p : Str → Bool, sorted (ks.filter p) = sorted (xs.dedup.filter p) :=
    fun p => sorted_perm (hperm.filter p)
  have hCd : py!"C" ∈ xs.dedup ↔ py!"C" ∈ ks := by simp [hmem]
  have hHd : py!"H" ∈ xs.dedup ↔ py!"H" ∈ ks := by simp [hmem]
  have hHf : py!"H" ∈ ks.filter (fun s => s ≠ py!"C") ↔ py!"H" ∈ ks := by simp
  simp only [hH, hC, filter_CH, hsort, hillOrder, hCd, hHd, hHf, ok_bind, pyAdd_list, List.nil_append]
  by_cases hc : py!"C" ∈ ks
  · have hc1 := count_cast_pos xs _ ((hmem _).1 hc)
    simp only [hc, if_true, truthy_some_pos _ hc1, pyGt_some_one, pyStr_some_int]
    by_cases hh : py!"H" ∈ ks
    · have hh1 := count_cast_pos xs _ ((hmem _).1 hh)
      simp only [hh, if_true, truthy_some_pos _ hh1, pyGt_some_one, pyStr_some_int]
      simp [renderElem]
    · simp only [hh, if_false, truthy_none_int]
      simp [renderElem]
  · simp only [hc, if_false, truthy_none_int]
    have : xs.dedup.filter (fun s => s ≠ py!"C") = xs.dedup := by
      rw [List.filter_eq_self]
      intro a ha
      have : a ≠ py!"C" := fun h => hc (hCd.1 (h ▸ ha))
      simpa using this
    simp only [this, Bool.false_eq_true, if_false]

/-- the formula accounts for every atom that has an element symbol -/
theorem hillOrder_perm (syms : List Str) : (hillOrder syms).Perm syms.dedup := by
  unfold hillOrder
  have hd := List.nodup_dedup syms
  generalize syms.dedup = d at hd
  simp only
  by_cases hc : py!"C" ∈ d
  · simp only [hc, if_true]
    have hs : (sorted (d.filter (fun s => s ≠ py!"C" ∧ s ≠ py!"H"))).Perm
        (d.filter (fun s => s ≠ py!"C" ∧ s ≠ py!"H")) := List.mergeSort_perm _ _
    rw [List.perm_ext_iff_of_nodup _ hd]
    · intro a
      by_cases hh : py!"H" ∈ d
      · simp only [hh, if_true, List.mem_cons, List.mem_append, hs.mem_iff, List.mem_filter, List.not_mem_nil,
          or_false, decide_eq_true_eq]
        constructor
        · rintro (rfl | rfl | h)
          · exact hc
          · exact hh
          · exact h.1
        · intro h
          by_cases h1 : a = py!"C"
          · exact Or.inl h1
          · by_cases h2 : a = py!"H"
            · exact Or.inr (Or.inl h2)
            · exact Or.inr (Or.inr ⟨h, h1, h2⟩)
      · simp only [hh, if_false, List.mem_cons, List.nil_append, hs.mem_iff, List.mem_filter, decide_eq_true_eq]
        constructor
        · rintro (rfl | h)
          · exact hc
          · exact h.1
        · intro h
          by_cases h1 : a = py!"C"
          · exact Or.inl h1
          · have h2 : a ≠ py!"H" := fun e => hh (e ▸ h)
            exact Or.inr ⟨h, h1, h2⟩
    · have hsn : (sorted (d.filter (fun s => s ≠ py!"C" ∧ s ≠ py!"H"))).Nodup :=
        hs.nodup_iff.2 (hd.filter _)
      have hC' : py!"C" ∉ sorted (d.filter (fun s => s ≠ py!"C" ∧ s ≠ py!"H")) := by
        rw [hs.mem_iff]; simp
      have hH' : py!"H" ∉ sorted (d.filter (fun s => s ≠ py!"C" ∧ s ≠ py!"H")) := by
        rw [hs.mem_iff]; simp
      rw [List.nodup_cons]
      by_cases hh : py!"H" ∈ d
      · simp only [hh, if_true, List.singleton_append, List.nodup_cons, List.mem_cons]
        refine ⟨?_, hH', hsn⟩
        rintro (h | h)
        · exact absurd h (by decide)
        · exact hC' h
      · simp only [hh, if_false, List.nil_append]
        exact ⟨hC', hsn⟩
  · simp only [hc, if_false]
    exact List.mergeSort_perm _ _

end Contracts.Serialize

#print axioms Contracts.Serialize.write_edge_list_ok
#print axioms Contracts.Serialize.edge_list_lt
#print axioms Contracts.Serialize.edge_list_strict
#print axioms Contracts.Serialize.write_node_attributes_ok
#print axioms Contracts.Serialize.write_sum_formula_ok
#print axioms Contracts.Serialize.hillOrder_perm
