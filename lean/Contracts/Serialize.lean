/-
Contracts.Serialize — the three string writers of the serializer against spec functions written
from the layout rules of property C05 (Hill-order formula equal to the element counts; each bond
once as (a-b), a<b, ascending, 1-based; one attribute block per labelled atom in ascending index
order, mass before rad).
-/
import Generated.Serialization
import Spec.Order
set_option autoImplicit false
open Py

namespace Contracts.Serialize

/-! ### edge list -/
def normEdge (e : Int × Int) : Int × Int := (min e.1 e.2, max e.1 e.2)
def renderEdge (e : Int × Int) : Str :=
  py!"(" ++ pyStrInt (e.1 + 1) ++ py!"-" ++ pyStrInt (e.2 + 1) ++ py!")"
def edgeListSpec (m : Graph) : Str := ((sorted (m.edges.map normEdge)).map renderEdge).flatten

theorem write_edge_list_ok (env : DepEnv) (m : Graph) :
    Tucan.serialization._write_edge_list env m = .ok (edgeListSpec m) := sorry

/-- layout: every printed tuple has `a < b` when the graph has no self-loop -/
theorem edge_list_lt (m : Graph) (hloop : ∀ e ∈ m.edges, e.1 ≠ e.2) :
    ∀ e ∈ sorted (m.edges.map normEdge), e.1 < e.2 := sorry
/-- layout: tuples strictly ascending (hence each bond exactly once) when the graph lists each
unordered pair once -/
theorem edge_list_strict (m : Graph) (hnodup : (m.edges.map normEdge).Nodup) :
    (sorted (m.edges.map normEdge)).Pairwise (fun a b => POrd.lt a b = true) := sorry

/-! ### attribute blocks -/
def renderProps (attrs : Attrs) : List Str :=
  [("mass", py!"mass"), ("rad", py!"rad")].filterMap (fun (p : String × Str) =>
    (attrs.get? p.1).map (fun v => p.2 ++ py!"=" ++ pyStr v))
def renderBlock (p : Int × Attrs) : Str :=
  if renderProps p.2 = [] then [] else
    py!"(" ++ pyStrInt (p.1 + 1) ++ py!":" ++ join py!"," (renderProps p.2) ++ py!")"
def nodeAttrsSpec (m : Graph) : Str := ((sortedKey Prod.fst m.nodesData).map renderBlock).flatten

theorem write_node_attributes_ok (env : DepEnv) (m : Graph) :
    Tucan.serialization._write_node_attributes env m = .ok (nodeAttrsSpec m) := sorry

/-! ### sum formula -/
def renderElem (s : Str) (n : Int) : Str := if n > 1 then s ++ pyStrInt n else s
/-- distinct symbols in Hill order: C, then H, then the rest alphabetically if carbon is present;
all alphabetically otherwise -/
def hillOrder (syms : List Str) : List Str :=
  let d := syms.dedup
  if py!"C" ∈ d then
    py!"C" :: ((if py!"H" ∈ d then [py!"H"] else []) ++ sorted (d.filter (fun s => s ≠ py!"C" ∧ s ≠ py!"H")))
  else sorted d
def symbolsOf (m : Graph) : List Str := (Dict.values (Graph.getNodeAttributes m "element_symbol")).map Val.asStr
def sumFormulaSpec (m : Graph) : Str :=
  ((hillOrder (symbolsOf m)).map (fun s => renderElem s ((symbolsOf m).count s))).flatten

theorem write_sum_formula_ok (env : DepEnv) (m : Graph) :
    Tucan.serialization._write_sum_formula env m = .ok (sumFormulaSpec m) := sorry

/-- the formula accounts for every atom that has an element symbol -/
theorem hillOrder_perm (syms : List Str) : (hillOrder syms).Perm syms.dedup := sorry

end Contracts.Serialize
