/-
Contracts.Pipeline — property-level theorems about the composition
`tucan m := serialize_molecule (canonicalize_molecule m)` (`Pipeline.tucan`).

0. `Agree keys a b`      — same labels, same bonds, same value of the attributes `keys` at every label
                           (iteration orders, other attributes, bond data unconstrained); `RenamedOn`
1. `tucanSpec_agree_sorted`, `tucanSpec_same`
                         — the emitted text is a function of the abstract labelled graph
   `assign_final_labels_agree`
                         — `_assign_final_labels` reads only labels, bonds and `partition` (variant of
                           `FinalLabels.assign_final_labels_order_independent` under `Agree ["partition"]`)
2. `serialize_molecule_ok`, `pipeline_run`, `C15_pipeline_total`, `C15_tucan_total`
                         — the pipeline returns normally for every molecule with at least one atom
                           (fuel bound: `FinalLabels.fuelBound m` = atoms + sum of degrees + 2)
3. `serialize_molecule_agree`, `C01_main`, `C01_tucan`
                         — two descriptions of one molecule give byte-identical strings
   `C06_graph_half`      — attributes outside the identity attributes do not influence the string
4. `C05_pipeline`        — the emitted string is a sentence of the grammar and obeys the layout rules

Hypotheses: C15 / C05 need `invariant_code` and `atomic_number` on every atom; `element_symbol` need not be
carried for the pipeline to return (`get_node_attributes` skips atoms without it). C01 inherits the correction
of C04 (`CodeDetermines`, see Contracts/Canonicalize.lean).
-/
import Contracts.Canonicalize
import Contracts.FinalLabels
import Contracts.Layout
set_option autoImplicit false

open Py Py.Graph Contracts

namespace Contracts.Pipeline
open Contracts.Partition (attrV seq Carries)
open Contracts.Serialize
open Contracts.Layout (sortGraph sortPos keyList tucanSpec)
open Contracts.Canonicalize (identityKeys CodeDetermines Trace)
open Contracts.FinalLabels (clearExplored fuelBound prios FinalLabelsSpec)

/-! ## 0. the relation "same labelled graph as far as the attributes `keys` are concerned" -/

/-- `a` and `b` have the same atoms (labels), the same bonds, and at every label the same value of every
attribute in `keys`. Node / adjacency / attribute iteration orders, all other attributes and the bond data
are unconstrained. -/
structure Agree (keys : List String) (a b : Graph) : Prop where
  nodes : a.nodeList.Perm b.nodeList
  attr : ∀ k ∈ keys, ∀ n, a.attr n k = b.attr n k
  nbrs : ∀ n, (a.nbrs n).Perm (b.nbrs n)

theorem attr_of_not_mem {r : Graph} {k : Int} (h : k ∉ r.nodeList) (key : String) : r.attr k key = none :=
  Canonicalize.attr_of_not_mem h key

theorem nbrs_of_not_mem {g : Graph} (hg : g.WF) {n : Int} (hn : n ∉ g.nodeList) : g.nbrs n = [] :=
  FinalLabels.nbrs_of_not_mem hg hn

namespace Agree
variable {keys : List String} {a b : Graph}

theorem refl (keys : List String) (a : Graph) : Agree keys a a :=
  ⟨List.Perm.refl _, fun _ _ _ => rfl, fun _ => List.Perm.refl _⟩

theorem symm (h : Agree keys a b) : Agree keys b a :=
  ⟨h.nodes.symm, fun k hk n => (h.attr k hk n).symm, fun n => (h.nbrs n).symm⟩

theorem trans {c : Graph} (h₁ : Agree keys a b) (h₂ : Agree keys b c) : Agree keys a c :=
  ⟨h₁.nodes.trans h₂.nodes, fun k hk n => (h₁.attr k hk n).trans (h₂.attr k hk n),
    fun n => (h₁.nbrs n).trans (h₂.nbrs n)⟩

theorem mono {keys' : List String} (h : Agree keys a b) (hsub : ∀ k ∈ keys', k ∈ keys) : Agree keys' a b :=
  ⟨h.nodes, fun k hk n => h.attr k (hsub k hk) n, h.nbrs⟩

theorem mem (h : Agree keys a b) (n : Int) : n ∈ a.nodeList ↔ n ∈ b.nodeList := h.nodes.mem_iff

/-- two presentations of the same labelled graph agree on every attribute -/
theorem of_same (ha : a.WF) (hb : b.WF) (h : Same a b) (keys : List String) : Agree keys a b :=
  ⟨FinalLabels.same_perm_nodes h, fun k _ n => (FinalLabels.same_attr h n k).symm,
    fun n => FinalLabels.same_nbrs ha hb h n⟩

theorem attrV_eq (h : Agree keys a b) {k : String} (hk : k ∈ keys) (n : Int) : attrV a k n = attrV b k n := by
  unfold attrV; rw [h.attr k hk n]

theorem carries (h : Agree keys a b) {k : String} (hk : k ∈ keys) (c : Carries a k) : Carries b k := by
  intro n hn
  rw [← h.attr k hk n]; exact c n ((h.mem n).2 hn)

/-- the sort key of an atom depends only on the abstract graph -/
theorem seq_eq (h : Agree keys a b) {k : String} (hk : k ∈ keys) (n : Int) : seq a k n = seq b k n := by
  apply Partition.seq_congr (h.attrV_eq hk n)
  have e : attrV a k = attrV b k := funext (h.attrV_eq hk)
  rw [e]
  exact (h.nbrs n).map _

theorem keyList_perm (h : Agree keys a b) {k : String} (hk : k ∈ keys) : (keyList a k).Perm (keyList b k) := by
  unfold keyList
  have e : (fun n => (seq a k n, n)) = (fun n => (seq b k n, n)) := funext (fun n => by rw [h.seq_eq hk n])
  rw [e]
  exact h.nodes.map _

/-- the new label given by `sort_molecule_by_attribute` depends only on the abstract graph -/
theorem sortPos_eq (h : Agree keys a b) {k : String} (hk : k ∈ keys) (n : Int) : sortPos a k n = sortPos b k n := by
  unfold sortPos
  rw [sorted_perm (h.keyList_perm hk), h.seq_eq hk n]

/-- renaming both graphs by maps that coincide on the atoms preserves agreement -/
theorem relabel {a' b' : Graph} {π ρ : Int → Int} (h : Agree keys a b) (ha : a.WF) (ha' : a'.WF) (hb' : b'.WF)
    (ra : IsRelabel π a a') (rb : IsRelabel ρ b b') (hπ : ∀ n ∈ a.nodeList, π n = ρ n) : Agree keys a' b' := by
  have hnodes : a'.nodeList.Perm b'.nodeList := by
    refine ra.nodes.trans (List.Perm.trans ?_ rb.nodes.symm)
    rw [List.map_congr_left hπ]
    exact h.nodes.map ρ
  refine ⟨hnodes, ?_, ?_⟩
  · intro k hk n
    by_cases hn : n ∈ a'.nodeList
    · obtain ⟨x, hx, rfl⟩ := List.mem_map.1 (ra.nodes.mem_iff.1 hn)
      rw [ra.attrs x hx k, hπ x hx, rb.attrs x ((h.mem x).1 hx) k, h.attr k hk x]
    · rw [attr_of_not_mem hn, attr_of_not_mem (fun h' => hn (hnodes.mem_iff.2 h'))]
  · intro n
    by_cases hn : n ∈ a'.nodeList
    · obtain ⟨x, hx, rfl⟩ := List.mem_map.1 (ra.nodes.mem_iff.1 hn)
      refine (ra.nbrs x hx).trans ?_
      rw [hπ x hx]
      refine List.Perm.trans ?_ (rb.nbrs x ((h.mem x).1 hx)).symm
      rw [List.map_congr_left (fun y hy => hπ y (ha.nbr_mem x y hy))]
      exact (h.nbrs x).map ρ
    · rw [nbrs_of_not_mem ha' hn, nbrs_of_not_mem hb' (fun h' => hn (hnodes.mem_iff.2 h'))]

end Agree

/-! ## 1. the emitted text depends only on the abstract labelled graph -/

/-- the attributes the serializer prints or sorts by -/
def printKeys : List String := ["element_symbol", "atomic_number", "mass", "rad"]

theorem printKeys_eq : printKeys = identityKeys := rfl

section specs
variable {keys : List String} {a b : Graph}

theorem symbolsOf_agree (h : Agree keys a b) (hk : "element_symbol" ∈ keys) (ha : a.WF) (hb : b.WF) :
    (symbolsOf a).Perm (symbolsOf b) := by
  rw [Layout.symbolsOf_eq ha, Layout.symbolsOf_eq hb]
  have e : (fun n => (a.attr n "element_symbol").map Val.asStr) =
      (fun n => (b.attr n "element_symbol").map Val.asStr) := funext (fun n => by rw [h.attr _ hk n])
  rw [e]
  exact h.nodes.filterMap _

/-- Hill order is a function of the multiset of symbols -/
theorem hillOrder_congr {s t : List Str} (h : s.Perm t) : hillOrder s = hillOrder t := by
  unfold hillOrder
  have hd : s.dedup.Perm t.dedup := h.dedup
  simp only [hd.mem_iff, sorted_perm hd, sorted_perm (hd.filter _)]

theorem sumFormulaSpec_congr {x y : Graph} (h : (symbolsOf x).Perm (symbolsOf y)) :
    sumFormulaSpec x = sumFormulaSpec y := by
  unfold sumFormulaSpec
  rw [hillOrder_congr h]
  congr 2
  funext s
  rw [h.count_eq]

theorem sumFormulaSpec_congr' {x y : Graph} (h : (symbolsOf x).Perm (symbolsOf y)) :
    sumFormulaSpec x = ((hillOrder (symbolsOf y)).map (fun s => renderElem s ((symbolsOf y).count s))).flatten :=
  sumFormulaSpec_congr h

/-- the sorted normalised bond list is a function of the bond *set* -/
theorem bondList_agree (h : Agree keys a b) (ha : a.WF) (hb : b.WF) : Layout.bondList a = Layout.bondList b :=
  eq_of_strict_of_mem_iff (edge_list_strict a (Layout.nodup_normEdges ha))
    (edge_list_strict b (Layout.nodup_normEdges hb))
    (fun e => by rw [Layout.mem_bondList ha, Layout.mem_bondList hb, (h.nbrs e.1).mem_iff])

theorem edgeListSpec_agree (h : Agree keys a b) (ha : a.WF) (hb : b.WF) : edgeListSpec a = edgeListSpec b := by
  rw [Layout.edgeListSpec_eq, Layout.edgeListSpec_eq, bondList_agree h ha hb]

/-- the attribute block of atom `n` -/
def blockOf (m : Graph) (n : Int) : Str := renderBlock (n, (m.node.get? n).getD Dict.empty)

theorem renderBlock_congr {p q : Int × Attrs} (h1 : p.1 = q.1) (hm : p.2.get? "mass" = q.2.get? "mass")
    (hr : p.2.get? "rad" = q.2.get? "rad") : renderBlock p = renderBlock q := by
  unfold renderBlock
  rw [Layout.renderProps_eq, Layout.renderProps_eq, h1, hm, hr]

theorem nodeAttrsSpec_eq_blocks {m : Graph} (hm : m.WF) :
    nodeAttrsSpec m = ((sorted m.nodeList).map (blockOf m)).flatten := by
  unfold nodeAttrsSpec
  congr 1
  have e : (sortedKey Prod.fst m.nodesData).map renderBlock =
      (sortedKey Prod.fst m.nodesData).map (fun p => blockOf m p.1) := by
    apply List.map_congr_left
    intro p hp
    rw [mem_sortedKey] at hp
    have h1 : m.node.get? p.1 = some p.2 := Dict.get?_of_mem_items hm.node_wf hp
    unfold blockOf
    rw [h1]
    rfl
  rw [e]
  have : (sortedKey Prod.fst m.nodesData).map (fun p => blockOf m p.1) =
      ((sortedKey Prod.fst m.nodesData).map Prod.fst).map (blockOf m) := by
    rw [List.map_map]; rfl
  rw [this, map_sortedKey]
  rfl

theorem getD_get?_eq_attr (m : Graph) (n : Int) (k : String) :
    ((m.node.get? n).getD Dict.empty).get? k = m.attr n k := by
  unfold Graph.attr
  cases m.node.get? n with
  | none => rfl
  | some x => rfl

theorem blockOf_agree (h : Agree keys a b) (hm : "mass" ∈ keys) (hr : "rad" ∈ keys) (n : Int) :
    blockOf a n = blockOf b n := by
  unfold blockOf
  refine renderBlock_congr (p := (n, _)) (q := (n, _)) rfl ?_ ?_
  · simp only [getD_get?_eq_attr]; exact h.attr _ hm n
  · simp only [getD_get?_eq_attr]; exact h.attr _ hr n

theorem nodeAttrsSpec_agree (h : Agree keys a b) (hm : "mass" ∈ keys) (hr : "rad" ∈ keys) (ha : a.WF) (hb : b.WF) :
    nodeAttrsSpec a = nodeAttrsSpec b := by
  rw [nodeAttrsSpec_eq_blocks ha, nodeAttrsSpec_eq_blocks hb, sorted_perm h.nodes,
    (funext (blockOf_agree h hm hr) : blockOf a = blockOf b)]

/-- the text printed for a graph is a function of the abstract labelled graph: labels, bonds, element
symbols, masses and radical states -/
theorem tucanSpec_agree (h : Agree keys a b) (hs : "element_symbol" ∈ keys) (hm : "mass" ∈ keys)
    (hr : "rad" ∈ keys) (ha : a.WF) (hb : b.WF) : tucanSpec a = tucanSpec b := by
  unfold tucanSpec
  rw [sumFormulaSpec_congr (symbolsOf_agree h hs ha hb), edgeListSpec_agree h ha hb,
    nodeAttrsSpec_agree h hm hr ha hb]

/-- sorting both graphs by attribute `k` preserves agreement -/
theorem sortGraph_agree (h : Agree keys a b) {k : String} (hk : k ∈ keys) (ha : a.WF) (hb : b.WF) :
    Agree keys (sortGraph a k) (sortGraph b k) := by
  obtain ⟨wa, -, ra⟩ := Layout.sortGraph_spec ha k
  obtain ⟨wb, -, rb⟩ := Layout.sortGraph_spec hb k
  exact h.relabel ha wa wb ra rb (fun n _ => h.sortPos_eq hk n)

end specs

/-- **Item 1.** The emitted text depends only on the abstract labelled graph: if the well-formed graphs `a`,
`b` have the same atoms, the same bonds and at every atom the same element symbol, atomic number, mass and
radical state (node / neighbour / attribute iteration orders, all other attributes and the bond data may
differ), then sorting by atomic number and printing gives the same string. -/
theorem tucanSpec_agree_sorted {a b : Graph} (ha : a.WF) (hb : b.WF) (h : Agree printKeys a b) :
    tucanSpec (sortGraph a "atomic_number") = tucanSpec (sortGraph b "atomic_number") := by
  exact tucanSpec_agree (sortGraph_agree h (by decide) ha hb) (by decide) (by decide) (by decide)
    (Layout.sortGraph_spec ha _).1 (Layout.sortGraph_spec hb _).1

/-- the same for two presentations of one labelled graph (`Same`: equal up to iteration orders) -/
theorem tucanSpec_same {a b : Graph} (ha : a.WF) (hb : b.WF) (h : Same a b) :
    tucanSpec (sortGraph a "atomic_number") = tucanSpec (sortGraph b "atomic_number") :=
  tucanSpec_agree_sorted ha hb (Agree.of_same ha hb h _)

/-! ## 2. renamings that carry a set of attributes -/

/-- `h` is `g` with every atom `n` renamed to `π n` (one-to-one), adjacency and every node attribute whose
name satisfies `P` carried along -/
structure RenamedOn (P : String → Prop) (π : Int → Int) (g h : Graph) : Prop where
  inj : ∀ a ∈ g.nodeList, ∀ b ∈ g.nodeList, π a = π b → a = b
  nodes : h.nodeList.Perm (g.nodeList.map π)
  attr : ∀ k, P k → ∀ n ∈ g.nodeList, h.attr (π n) k = g.attr n k
  nbrs : ∀ n ∈ g.nodeList, (h.nbrs (π n)).Perm ((g.nbrs n).map π)

theorem nbrs_clearExplored (g : Graph) (n : Int) : (clearExplored g).nbrs n = g.nbrs n := rfl

namespace RenamedOn
variable {P : String → Prop} {π : Int → Int} {g h : Graph}

theorem isIsoOn (r : RenamedOn P π g h) {k : String} (hk : P k) : IsIsoOn k π g h :=
  ⟨r.inj, r.nodes, r.attr k hk, r.nbrs⟩

theorem mem_nodeList (r : RenamedOn P π g h) {n : Int} (hn : n ∈ g.nodeList) : π n ∈ h.nodeList :=
  r.nodes.mem_iff.2 (List.mem_map.2 ⟨n, hn, rfl⟩)

theorem of_relabel (r : IsRelabel π g h) (P : String → Prop) : RenamedOn P π g h :=
  ⟨r.inj, r.nodes, fun k _ n hn => r.attrs n hn k, r.nbrs⟩

theorem of_relabelExcept {key : String} (r : Relabel.IsRelabelExcept key π g h) :
    RenamedOn (fun k => k ≠ key) π g h :=
  ⟨r.inj, r.nodes, fun k hk n hn => r.attrs n hn k hk, r.nbrs⟩

/-- resetting the scratch flag `explored` renames nothing and keeps every other attribute -/
theorem clear (g : Graph) : RenamedOn (fun k => k ≠ "explored") id g (clearExplored g) where
  inj := fun _ _ _ _ e => e
  nodes := by rw [nodeList_setNodeAttrScalar, List.map_id]
  attr := fun k hk n _ => by
    rw [id, attr_setNodeAttrScalar, if_neg hk]
  nbrs := fun n _ => by rw [nbrs_clearExplored, List.map_id, id]

theorem weaken {Q : String → Prop} (r : RenamedOn P π g h) (hQ : ∀ k, Q k → P k) : RenamedOn Q π g h :=
  ⟨r.inj, r.nodes, fun k hk => r.attr k (hQ k hk), r.nbrs⟩

theorem trans {σ : Int → Int} {k : Graph} (r₁ : RenamedOn P π g h) (r₂ : RenamedOn P σ h k) :
    RenamedOn P (σ ∘ π) g k where
  inj := fun a ha b hb e =>
    r₁.inj a ha b hb (r₂.inj _ (r₁.mem_nodeList ha) _ (r₁.mem_nodeList hb) e)
  nodes := by
    rw [← List.map_map]; exact r₂.nodes.trans (r₁.nodes.map σ)
  attr := fun key hkey n hn => by
    rw [Function.comp, r₂.attr key hkey _ (r₁.mem_nodeList hn), r₁.attr key hkey n hn]
  nbrs := fun n hn => by
    rw [← List.map_map]
    exact (r₂.nbrs _ (r₁.mem_nodeList hn)).trans ((r₁.nbrs n hn).map σ)

theorem carries (r : RenamedOn P π g h) {k : String} (hk : P k) (c : Carries g k) : Carries h k :=
  Canonicalize.carries_of_iso (r.isIsoOn hk) c

theorem loopless (r : RenamedOn P π g h) (hg : g.WF) (hh : h.WF) (hl : g.Loopless) : h.Loopless := by
  intro u hu
  have hun : u ∈ h.nodeList := hh.nbr_mem u u hu
  obtain ⟨a, ha, rfl⟩ := List.mem_map.1 (r.nodes.mem_iff.1 hun)
  obtain ⟨v, hv, e⟩ := List.mem_map.1 ((r.nbrs a ha).mem_iff.1 hu)
  have := r.inj v (hg.nbr_mem a v hv) a ha e
  subst this
  exact hl v hv

theorem length_eq (r : RenamedOn P π g h) : h.nodeList.length = g.nodeList.length := by
  rw [r.nodes.length_eq, List.length_map]

theorem numberOfNodes_eq (r : RenamedOn P π g h) : h.numberOfNodes = g.numberOfNodes := by
  rw [Graph.numberOfNodes_eq, Graph.numberOfNodes_eq, r.length_eq]

/-- the fuel needed by `_assign_final_labels` (atoms + sum of degrees + 2) is invariant under renaming -/
theorem fuelBound_eq (r : RenamedOn P π g h) : fuelBound h = fuelBound g := by
  unfold FinalLabels.fuelBound
  rw [r.length_eq, (r.nodes.map (fun u => (h.nbrs u).length)).sum_eq, List.map_map]
  congr 3
  apply List.map_congr_left
  intro n hn
  rw [Function.comp, (r.nbrs n hn).length_eq, List.length_map]

theorem symbolsOf_perm (r : RenamedOn P π g h) (hk : P "element_symbol") (hg : g.WF) (hh : h.WF) :
    (symbolsOf h).Perm (symbolsOf g) := Layout.symbolsOf_isoOn (r.isIsoOn hk) hg hh

end RenamedOn

/-- agreement survives resetting the scratch flag -/
theorem agree_clear {keys : List String} {a b : Graph} (h : Agree keys a b) (hne : "explored" ∉ keys) :
    Agree keys (clearExplored a) (clearExplored b) where
  nodes := by rw [nodeList_setNodeAttrScalar, nodeList_setNodeAttrScalar]; exact h.nodes
  attr := fun k hk n => by
    have hk' : k ≠ "explored" := fun e => hne (e ▸ hk)
    rw [attr_setNodeAttrScalar, attr_setNodeAttrScalar, if_neg hk', if_neg hk']
    exact h.attr k hk n
  nbrs := fun n => by rw [nbrs_clearExplored, nbrs_clearExplored]; exact h.nbrs n

theorem fuelBound_agree {keys : List String} {a b : Graph} (h : Agree keys a b) : fuelBound a = fuelBound b := by
  unfold FinalLabels.fuelBound
  have h2 : (a.nodeList.map (fun u => (a.nbrs u).length)) = (a.nodeList.map (fun u => (b.nbrs u).length)) :=
    List.map_congr_left (fun u _ => (h.nbrs u).length_eq)
  rw [h.nodes.length_eq, h2, (h.nodes.map (fun u => (b.nbrs u).length)).sum_eq]

/-! ## 3. `_assign_final_labels` reads only labels, bonds and the `partition` attribute -/

section FLAgree
open Contracts.FinalLabels
variable {g h : Graph}

theorem agree_cls (hag : Agree ["partition"] g h) (a : Int) : cls g a = cls h a :=
  hag.attrV_eq (by simp) a

theorem agree_unexp (hag : Agree ["partition"] g h) (fl : Dict Int Int) : sorted (unexp g fl) = sorted (unexp h fl) :=
  sorted_perm (hag.nodes.filter _)

theorem agree_classNodes (hag : Agree ["partition"] g h) (p : Val) : (classNodes g p).Perm (classNodes h p) := by
  unfold classNodes
  simp only [agree_cls hag]
  exact hag.nodes.filter _

theorem innerStep_agree (hag : Agree ["partition"] g h) (t₁ t₂ : SI) (hr : RelI t₁ t₂) :
    StepRel RelI (innerStep g t₁) (innerStep h t₂) := by
  obtain ⟨g₁, d₁, fl₁, q₁, dn₁⟩ := t₁
  obtain ⟨g₂, d₂, fl₂, q₂, dn₂⟩ := t₂
  obtain ⟨hd, hfl, hq, hdn⟩ := hr
  simp only at hd hfl hq hdn
  subst hfl hq hdn
  have hto : ∀ a, travOrder prios.reverse g a (g.nbrs a) = travOrder prios.reverse h a (h.nbrs a) :=
    fun a => travOrder_congr _ a (agree_cls hag) (hag.nbrs a)
  unfold innerStep
  simp only [← agree_cls hag, hto, hd]
  by_cases hq0 : q₁ = []
  · simp only [hq0, if_true]
    exact ⟨hd, rfl, rfl, rfl⟩
  · simp only [hq0, if_false]
    by_cases hex : q₁.getLastD 0 ∈ fl₁.keys
    · simp only [hex, if_true]
      exact ⟨hd, rfl, rfl, rfl⟩
    · simp only [hex, if_false]
      refine ⟨fun p => ?_, rfl, rfl, rfl⟩
      simp only [Dict.get?_set, hd]

theorem outerStep_agree (hag : Agree ["partition"] g h) (fuel : Nat) (s₁ s₂ : SO) (hr : RelO s₁ s₂) :
    StepRel RelO (outerStep g fuel s₁) (outerStep h fuel s₂) := by
  obtain ⟨g₁, d₁, fl₁, dn₁⟩ := s₁
  obtain ⟨g₂, d₂, fl₂, dn₂⟩ := s₂
  obtain ⟨hd, hfl, hdn⟩ := hr
  simp only at hd hfl hdn
  subst hfl hdn
  unfold outerStep
  simp only [← agree_unexp hag]
  cases hsl : sorted (unexp g fl₁) with
  | nil => exact ⟨hd, rfl, rfl⟩
  | cons u0 tl =>
    simp only
    have := run_rel RelI (innerStep g) (innerStep h) (innerStep_agree hag) fuel
      (g₁, d₁, fl₁, [u0], false) (g₂, d₂, fl₁, [u0], false) ⟨hd, rfl, rfl, rfl⟩
    exact ⟨this.1, this.2.1, rfl⟩

/-- the traversal computes the same `final_labels` on two graphs that agree on labels, bonds and classes -/
theorem specFL_agree (hag : Agree ["partition"] g h) (fuel : Nat) {d₁ d₂ : Dict Val (List Int)}
    (hd : ∀ p, d₁.get? p = d₂.get? p) : specFL g fuel d₁ = specFL h fuel d₂ := by
  unfold specFL
  exact (run_rel RelO (outerStep g fuel) (outerStep h fuel) (outerStep_agree hag fuel) fuel
    (clearExplored g, d₁, Dict.empty, false) (clearExplored h, d₂, Dict.empty, false) ⟨hd, rfl, rfl⟩).2.1

theorem labels_by_partition_agree {env₁ env₂ : DepEnv} (hs₁ : env₁.SetLawful) (hs₂ : env₂.SetLawful)
    (hg : g.WF) (hh : h.WF) (hag : Agree ["partition"] g h) (cg : Carries g "partition")
    {d₁ d₂ : Dict Val (List Int)}
    (h₁ : Tucan.serialization._labels_by_partition env₁ g = .ok d₁)
    (h₂ : Tucan.serialization._labels_by_partition env₂ h = .ok d₂) : ∀ p, d₁.get? p = d₂.get? p := by
  obtain ⟨d₁', e₁, -, k₁, g₁⟩ := labels_by_partition_ok env₁ hs₁ hg.node_wf cg
  obtain ⟨d₂', e₂, -, k₂, g₂⟩ := labels_by_partition_ok env₂ hs₂ hh.node_wf (hag.carries (by simp) cg)
  rw [h₁] at e₁; rw [h₂] at e₂
  simp only [Except.ok.injEq] at e₁ e₂
  subst e₁ e₂
  intro p
  have hk : p ∈ d₁.keys ↔ p ∈ d₂.keys := by
    rw [k₁, k₂]
    constructor
    · rintro ⟨a, ha, rfl⟩; exact ⟨a, (hag.mem a).1 ha, (agree_cls hag a).symm⟩
    · rintro ⟨a, ha, rfl⟩; exact ⟨a, (hag.mem a).2 ha, agree_cls hag a⟩
  by_cases hp : p ∈ d₁.keys
  · rw [g₁ p hp, g₂ p (hk.1 hp), sortedRev_perm (agree_classNodes hag p)]
  · rw [(Dict.get?_eq_none_iff _ _).2 hp, (Dict.get?_eq_none_iff _ _).2 (fun x => hp (hk.2 x))]

/-- **Order / attribute independence of `_assign_final_labels`**: two well-formed graphs with the same
labels, the same bonds and the same `partition` value at every label (iteration orders and all other
attributes may differ), processed under possibly different `set` iteration orders and with different
(sufficient) amounts of fuel, get literally the same `final_labels` dict. -/
theorem assign_final_labels_agree {env₁ env₂ : DepEnv} (hs₁ : env₁.SetLawful) (hs₂ : env₂.SetLawful)
    (hg : g.WF) (hh : h.WF) (hag : Agree ["partition"] g h) (cg : Carries g "partition") :
    ∃ fl, FinalLabelsSpec g fl ∧ FinalLabelsSpec h fl ∧
      (∀ fuel, fuel ≥ fuelBound g → Tucan.serialization._assign_final_labels env₁ fuel g prios =
        .ok ((clearExplored g).relabelCopy fl, clearExplored g)) ∧
      (∀ fuel, fuel ≥ fuelBound h → Tucan.serialization._assign_final_labels env₂ fuel h prios =
        .ok ((clearExplored h).relabelCopy fl, clearExplored h)) := by
  have ch := hag.carries (by simp) cg
  obtain ⟨d₁, hd₁, -⟩ := labels_by_partition_ok env₁ hs₁ hg.node_wf cg
  obtain ⟨d₂, hd₂, -⟩ := labels_by_partition_ok env₂ hs₂ hh.node_wf ch
  have hb := fuelBound_agree hag
  obtain ⟨a1, a2⟩ := assign_final_labels_spec env₁ hs₁ (fuelBound g) hg cg (le_refl _) hd₁
  obtain ⟨b1, b2⟩ := assign_final_labels_spec env₂ hs₂ (fuelBound g) hh ch (by rw [hb]) hd₂
  have e : specFL g (fuelBound g) d₁ = specFL h (fuelBound g) d₂ :=
    specFL_agree hag _ (labels_by_partition_agree hs₁ hs₂ hg hh hag cg hd₁ hd₂)
  rw [← e] at b1 b2
  exact ⟨_, a2, b2, fun fuel hf => assign_final_labels_fuel_mono env₁ hf g prios a1,
    fun fuel hf => assign_final_labels_fuel_mono env₂ (by rw [hb]; exact hf) h prios b1⟩

end FLAgree

/-! ## 4. `serialize_molecule` on a graph that carries `partition` and `atomic_number` -/

/-- Total correctness of `serialize_molecule`: for a well-formed graph `c` whose atoms all carry `partition`
and `atomic_number`, and any `fuel ≥ fuelBound c`, the call returns normally; the returned string is the
text of `ms`, the graph obtained from `c` by the final relabelling and the sort by atomic number; `ms` is `c`
under a one-to-one renaming that keeps every attribute but the scratch flag; `c` is left behind with the
scratch flag cleared. -/
theorem serialize_molecule_ok (env : DepEnv) (hs : env.SetLawful) (fuel : Nat) {c : Graph} (hc : c.WF)
    (cp : Carries c "partition") (ca : Carries c "atomic_number") (hf : fuel ≥ fuelBound c) :
    ∃ fl m₁, FinalLabelsSpec c fl ∧ m₁ = (clearExplored c).relabelCopy fl ∧
      Tucan.serialization._assign_final_labels env fuel c prios = .ok (m₁, clearExplored c) ∧
      m₁.WF ∧ IsRelabel (relabelFun fl) (clearExplored c) m₁ ∧ Carries m₁ "atomic_number" ∧
      Tucan.serialization.serialize_molecule env fuel c =
        .ok (tucanSpec (sortGraph m₁ "atomic_number"), clearExplored c) := by
  obtain ⟨fl, hspec, hrun, w, rel⟩ := FinalLabels.serialize_molecule_first_line env hs fuel hc cp hf
  have r₁ : RenamedOn (fun k => k ≠ "explored") (relabelFun fl ∘ id) c ((clearExplored c).relabelCopy fl) :=
    (RenamedOn.clear c).trans (RenamedOn.of_relabel rel _)
  have ca₁ : Carries ((clearExplored c).relabelCopy fl) "atomic_number" := r₁.carries (by decide) ca
  exact ⟨fl, _, hspec, rfl, hrun, w, rel, ca₁, Layout.serialize_molecule_eq env fuel c _ _ hrun w ca₁⟩

/-- Two well-formed graphs that agree on labels, bonds, `partition` and the printed attributes are
serialized to the same string (set iteration orders and fuels may differ). -/
theorem serialize_molecule_agree {env₁ env₂ : DepEnv} (hs₁ : env₁.SetLawful) (hs₂ : env₂.SetLawful)
    {cg ch : Graph} (hg : cg.WF) (hh : ch.WF) (hag : Agree (printKeys ++ ["partition"]) cg ch)
    (cp : Carries cg "partition") (ca : Carries cg "atomic_number")
    (fuel₁ fuel₂ : Nat) (hf₁ : fuel₁ ≥ fuelBound cg) (hf₂ : fuel₂ ≥ fuelBound ch) :
    ∃ s, Tucan.serialization.serialize_molecule env₁ fuel₁ cg = .ok (s, clearExplored cg) ∧
      Tucan.serialization.serialize_molecule env₂ fuel₂ ch = .ok (s, clearExplored ch) := by
  have hagp : Agree ["partition"] cg ch := hag.mono (by decide)
  have hagk : Agree printKeys cg ch := hag.mono (by decide)
  obtain ⟨fl, sg, sh, rg, rh⟩ := assign_final_labels_agree hs₁ hs₂ hg hh hagp cp
  obtain ⟨wg, relg, -⟩ := sg.relabel hg
  obtain ⟨wh, relh, -⟩ := sh.relabel hh
  have hag₁ : Agree printKeys ((clearExplored cg).relabelCopy fl) ((clearExplored ch).relabelCopy fl) :=
    (agree_clear hagk (by decide)).relabel (WF_setNodeAttrScalar hg _ _) wg wh relg relh (fun _ _ => rfl)
  have cag : Carries ((clearExplored cg).relabelCopy fl) "atomic_number" :=
    ((RenamedOn.clear cg).trans (RenamedOn.of_relabel relg _)).carries (by decide) ca
  have cah : Carries ((clearExplored ch).relabelCopy fl) "atomic_number" := hag₁.carries (by decide) cag
  refine ⟨_, Layout.serialize_molecule_eq env₁ fuel₁ cg _ _ (rg fuel₁ hf₁) wg cag, ?_⟩
  rw [tucanSpec_agree_sorted wg wh hag₁]
  exact Layout.serialize_molecule_eq env₂ fuel₂ ch _ _ (rh fuel₂ hf₂) wh cah

/-! ## 5. the pipeline `serialize_molecule (canonicalize_molecule m)` -/

/-- what the serializer needs to know about the canonicalized molecule -/
theorem canonicalize_facts {env : DepEnv} (hs : env.SetLawful) (hb : BlissLawful env) {m : Graph}
    (hm : m.WF) (hne : m.nodeList ≠ []) (hc : Carries m "invariant_code")
    (fuel : Nat) (hf : fuel ≥ m.nodeList.length + 1) :
    ∃ c ρ, Tucan.canonicalization.canonicalize_molecule env fuel m = .ok c ∧ c.WF ∧
      c.nodeList.Perm (range m.numberOfNodes) ∧ Carries c "partition" ∧
      Relabel.IsRelabelExcept "partition" ρ m c := by
  obtain ⟨pg, rg, c, T⟩ := Canonicalize.canonicalize_molecule_ok hs hb hm hne hc fuel hf
  refine ⟨c, _, T.result, T.wf, T.nodes, ?_, Canonicalize.isRelabelExcept_of_trace hm T T.relabel⟩
  exact Canonicalize.carries_of_iso (T.relabel.isIsoOn "partition") T.refineSpec.dense.carries

theorem length_le_fuelBound (m : Graph) : m.nodeList.length + 1 ≤ fuelBound m := by
  unfold FinalLabels.fuelBound; omega

/-- the attributes the pipeline never rewrites: everything but `partition` and the scratch flag `explored` -/
def Kept (k : String) : Prop := k ≠ "partition" ∧ k ≠ "explored"

instance : DecidablePred Kept := fun k => by unfold Kept; infer_instance

/-- everything known about one successful run of the pipeline on `m`: `c` is the canonicalized molecule, `s`
the emitted string, `ms` the graph whose text `s` is -/
structure Run (env : DepEnv) (fuel₁ fuel₂ : Nat) (m c ms : Graph) (s : Str) : Prop where
  canon : Tucan.canonicalization.canonicalize_molecule env fuel₁ m = .ok c
  serial : Tucan.serialization.serialize_molecule env fuel₂ c = .ok (s, clearExplored c)
  text : s = tucanSpec ms
  wf : ms.WF
  nodes : ms.nodeList.Perm (range m.numberOfNodes)
  renamed : ∃ σ, RenamedOn Kept σ m ms
  sorted : ∀ i ∈ ms.nodeList, ∀ j ∈ ms.nodeList, i < j →
    POrd.lt (attrV ms "atomic_number" j) (attrV ms "atomic_number" i) = false

/-- **Total correctness of the pipeline** with everything known about the result. -/
theorem pipeline_run {env : DepEnv} (hs : env.SetLawful) (hb : BlissLawful env) {m : Graph}
    (hm : m.WF) (hne : m.nodeList ≠ []) (hc : Carries m "invariant_code") (ha : Carries m "atomic_number")
    (fuel₁ fuel₂ : Nat) (hf₁ : fuel₁ ≥ m.nodeList.length + 1) (hf₂ : fuel₂ ≥ fuelBound m) :
    ∃ c ms s, Run env fuel₁ fuel₂ m c ms s := by
  obtain ⟨c, ρ, hcan, wc, nc, cp, rel⟩ := canonicalize_facts hs hb hm hne hc fuel₁ hf₁
  have r₀ : RenamedOn Kept ρ m c := (RenamedOn.of_relabelExcept rel).weaken (fun k hk => hk.1)
  have cac : Carries c "atomic_number" := r₀.carries (by decide) ha
  obtain ⟨fl, m₁, -, e₁, -, w₁, rel₁, ca₁, hser⟩ := serialize_molecule_ok env hs fuel₂ wc cp cac
    (by rw [r₀.fuelBound_eq]; exact hf₂)
  obtain ⟨ws, ns, rels⟩ := Layout.sortGraph_spec w₁ "atomic_number"
  have r₁ : RenamedOn Kept (relabelFun fl ∘ id) c m₁ :=
    ((RenamedOn.clear c).weaken (fun k hk => hk.2)).trans (RenamedOn.of_relabel rel₁ _)
  have r₂ : RenamedOn Kept (sortPos m₁ "atomic_number") m₁ (sortGraph m₁ "atomic_number") :=
    RenamedOn.of_relabel rels _
  have r : RenamedOn Kept _ m (sortGraph m₁ "atomic_number") := (r₀.trans r₁).trans r₂
  refine ⟨c, sortGraph m₁ "atomic_number", _, hcan, hser, rfl, ws, ?_, ⟨_, r⟩, ?_⟩
  · rw [← (r₀.trans r₁).numberOfNodes_eq]; exact ns
  · intro i hi j hj hij
    exact Layout.sorted_blocks w₁ "atomic_number" hi hj hij

/-- **C15** (pipeline): canonicalization and serialization return normally for every molecule with at least
one atom. `m`: well-formed, non-empty, every atom carrying `invariant_code` and `atomic_number` (the
postcondition of `graph_from_molecule`); lawful `set` iteration and bliss; `fuel₁ ≥ number of atoms + 1`,
`fuel₂ ≥ number of atoms + sum of the degrees + 2`. No fuel exhaustion (Python: no `RecursionError`), no
`AssertionError`, `IndexError`, `KeyError` or any other exception. -/
theorem C15_pipeline_total {env : DepEnv} (hs : env.SetLawful) (hb : BlissLawful env) {m : Graph}
    (hm : m.WF) (hne : m.nodeList ≠ []) (hc : Carries m "invariant_code") (ha : Carries m "atomic_number")
    (fuel₁ fuel₂ : Nat) (hf₁ : fuel₁ ≥ m.nodeList.length + 1) (hf₂ : fuel₂ ≥ fuelBound m) :
    ∃ c s m', Tucan.canonicalization.canonicalize_molecule env fuel₁ m = .ok c ∧
      Tucan.serialization.serialize_molecule env fuel₂ c = .ok (s, m') := by
  obtain ⟨c, ms, s, R⟩ := pipeline_run hs hb hm hne hc ha fuel₁ fuel₂ hf₁ hf₂
  exact ⟨c, s, _, R.canon, R.serial⟩

/-- the composition, as one function -/
def tucan (env : DepEnv) (fuel : Nat) (m : Graph) : M Str := do
  let c ← Tucan.canonicalization.canonicalize_molecule env fuel m
  let (s, _) ← Tucan.serialization.serialize_molecule env fuel c
  pure s

theorem tucan_eq_of_run {env : DepEnv} {fuel : Nat} {m c ms : Graph} {s : Str} (R : Run env fuel fuel m c ms s) :
    tucan env fuel m = .ok s := by
  unfold tucan
  simp only [R.canon, R.serial, ok_bind, pure_eq_ok]

/-- C15 for the composed function with a single fuel parameter -/
theorem C15_tucan_total {env : DepEnv} (hs : env.SetLawful) (hb : BlissLawful env) {m : Graph}
    (hm : m.WF) (hne : m.nodeList ≠ []) (hc : Carries m "invariant_code") (ha : Carries m "atomic_number")
    (fuel : Nat) (hf : fuel ≥ fuelBound m) : ∃ s, tucan env fuel m = .ok s := by
  obtain ⟨c, ms, s, R⟩ := pipeline_run hs hb hm hne hc ha fuel fuel
    (le_trans (length_le_fuelBound m) hf) hf
  exact ⟨s, tucan_eq_of_run R⟩

/-! ## 6. C01: two descriptions of one molecule give byte-identical strings -/

theorem RenamedOn.of_isIsoOn {key : String} {π : Int → Int} {g h : Graph} (r : IsIsoOn key π g h) :
    RenamedOn (fun k => k = key) π g h :=
  ⟨r.inj, r.nodes, fun k hk n hn => by subst hk; exact r.attr n hn, r.nbrs⟩

/-- **C01.** `g`, `h`: two descriptions of one molecule that differ only in the numbering of the atoms (`π`), in
the order in which atoms and bonds are listed (node / adjacency / attribute iteration orders are unconstrained)
and in the direction of bond endpoints (adjacency is symmetric in a well-formed graph); non-identity attributes
and bond data may differ as well. Hypotheses as in `C04_main` (`h` is `g` renamed by `π`, which carries
`invariant_code` and the identity attributes; atoms with equal invariant code have equal identity attributes)
plus: every atom carries `atomic_number`. The two runs may use different `set` iteration orders (hash seeds)
and different (sufficient) amounts of fuel. Then both pipeline runs return normally and the two strings are
equal. Symmetric molecules, multi-component molecules and isotope / radical labels are covered: nothing is
assumed about connectivity or automorphisms, and `mass` / `rad` are identity attributes. -/
theorem C01_main {env₁ env₂ : DepEnv} (hs₁ : env₁.SetLawful) (hs₂ : env₂.SetLawful) (hb : BlissLawful env₁)
    (hcp : env₂.canonicalPermutation = env₁.canonicalPermutation)
    (hpv : env₂.permuteVertices = env₁.permuteVertices)
    {g h : Graph} {π : Int → Int} (hg : g.WF) (hh : h.WF) (hne : g.nodeList ≠ [])
    (cg : Carries g "invariant_code") (ag : Carries g "atomic_number")
    (hiso : IsIsoOn "invariant_code" π g h)
    (hcarry : ∀ key ∈ identityKeys, ∀ n ∈ g.nodeList, h.attr (π n) key = g.attr n key)
    (hdet : ∀ key ∈ identityKeys, CodeDetermines g key)
    (fuel₁ fuel₁' fuel₂ fuel₂' : Nat)
    (hf₁ : fuel₁ ≥ g.nodeList.length + 1) (hf₁' : fuel₁' ≥ fuelBound g)
    (hf₂ : fuel₂ ≥ h.nodeList.length + 1) (hf₂' : fuel₂' ≥ fuelBound h) :
    ∃ rg rh s, Tucan.canonicalization.canonicalize_molecule env₁ fuel₁ g = .ok rg ∧
      Tucan.canonicalization.canonicalize_molecule env₂ fuel₂ h = .ok rh ∧
      Tucan.serialization.serialize_molecule env₁ fuel₁' rg = .ok (s, clearExplored rg) ∧
      Tucan.serialization.serialize_molecule env₂ fuel₂' rh = .ok (s, clearExplored rh) := by
  obtain ⟨rg, rh, e₁, e₂, wg, wh, ng, nh, hattr, hnb⟩ :=
    Canonicalize.C04_main hs₁ hs₂ hb hcp hpv hg hh hne cg hiso hcarry hdet fuel₁ fuel₂ hf₁ hf₂
  obtain ⟨c, ρ, hcan, -, -, cp, rel⟩ := canonicalize_facts hs₁ hb hg hne cg fuel₁ hf₁
  obtain rfl : c = rg := Except.ok.inj (hcan.symm.trans e₁)
  have r₀ : RenamedOn (fun k => k ≠ "partition") ρ g c := RenamedOn.of_relabelExcept rel
  have hag : Agree (printKeys ++ ["partition"]) c rh := by
    refine ⟨ng.trans nh.symm, ?_, ?_⟩
    · intro k hk n
      apply hattr n k
      simp only [printKeys, identityKeys, List.mem_append, List.mem_cons, List.not_mem_nil, or_false] at hk ⊢
      tauto
    · intro n
      exact (List.perm_ext_iff_of_nodup (wg.nodup_nbrs n) (wh.nodup_nbrs n)).2 (fun j => hnb j n)
  have fb₁ : fuelBound c = fuelBound g := r₀.fuelBound_eq
  have fb₂ : fuelBound rh = fuelBound h := by
    rw [← fuelBound_agree hag, fb₁, (RenamedOn.of_isIsoOn hiso).fuelBound_eq]
  obtain ⟨s, s₁, s₂⟩ := serialize_molecule_agree hs₁ hs₂ wg wh hag cp (r₀.carries (by decide) ag)
    fuel₁' fuel₂' (by rw [fb₁]; exact hf₁') (by rw [fb₂]; exact hf₂')
  exact ⟨c, rh, s, e₁, e₂, s₁, s₂⟩

/-- C01 for the composed function: the same string, not merely equivalent strings -/
theorem C01_tucan {env₁ env₂ : DepEnv} (hs₁ : env₁.SetLawful) (hs₂ : env₂.SetLawful) (hb : BlissLawful env₁)
    (hcp : env₂.canonicalPermutation = env₁.canonicalPermutation)
    (hpv : env₂.permuteVertices = env₁.permuteVertices)
    {g h : Graph} {π : Int → Int} (hg : g.WF) (hh : h.WF) (hne : g.nodeList ≠ [])
    (cg : Carries g "invariant_code") (ag : Carries g "atomic_number")
    (hiso : IsIsoOn "invariant_code" π g h)
    (hcarry : ∀ key ∈ identityKeys, ∀ n ∈ g.nodeList, h.attr (π n) key = g.attr n key)
    (hdet : ∀ key ∈ identityKeys, CodeDetermines g key)
    (fuel₁ fuel₂ : Nat) (hf₁ : fuel₁ ≥ fuelBound g) (hf₂ : fuel₂ ≥ fuelBound h) :
    ∃ s, tucan env₁ fuel₁ g = .ok s ∧ tucan env₂ fuel₂ h = .ok s := by
  obtain ⟨rg, rh, s, e₁, e₂, s₁, s₂⟩ := C01_main hs₁ hs₂ hb hcp hpv hg hh hne cg ag hiso hcarry hdet
    fuel₁ fuel₁ fuel₂ fuel₂ (le_trans (length_le_fuelBound g) hf₁) hf₁ (le_trans (length_le_fuelBound h) hf₂) hf₂
  refine ⟨s, ?_, ?_⟩ <;> unfold tucan
  · simp only [e₁, s₁, ok_bind, pure_eq_ok]
  · simp only [e₂, s₂, ok_bind, pure_eq_ok]

/-- **C06, graph half.** The string does not depend on charges, coordinates, bond data or any node attribute
outside `element_symbol`, `atomic_number`, `mass`, `rad`, `invariant_code`: two well-formed graphs with the same
labels and bonds that agree on these five attributes (everything else — other attributes, bond data, iteration
orders — arbitrary) give the same string. -/
theorem C06_graph_half {env₁ env₂ : DepEnv} (hs₁ : env₁.SetLawful) (hs₂ : env₂.SetLawful) (hb : BlissLawful env₁)
    (hcp : env₂.canonicalPermutation = env₁.canonicalPermutation)
    (hpv : env₂.permuteVertices = env₁.permuteVertices)
    {g h : Graph} (hg : g.WF) (hh : h.WF) (hne : g.nodeList ≠ [])
    (cg : Carries g "invariant_code") (ag : Carries g "atomic_number")
    (hnodes : h.nodeList.Perm g.nodeList)
    (hattr : ∀ key ∈ identityKeys ++ ["invariant_code"], ∀ n ∈ g.nodeList, h.attr n key = g.attr n key)
    (hnbrs : ∀ n ∈ g.nodeList, (h.nbrs n).Perm (g.nbrs n))
    (hdet : ∀ key ∈ identityKeys, CodeDetermines g key)
    (fuel₁ fuel₂ : Nat) (hf₁ : fuel₁ ≥ fuelBound g) (hf₂ : fuel₂ ≥ fuelBound h) :
    ∃ s, tucan env₁ fuel₁ g = .ok s ∧ tucan env₂ fuel₂ h = .ok s := by
  have hiso : IsIsoOn "invariant_code" id g h :=
    ⟨fun _ _ _ _ e => e, by rw [List.map_id]; exact hnodes,
      fun n hn => hattr "invariant_code" (by simp) n hn, fun n hn => by rw [List.map_id]; exact hnbrs n hn⟩
  exact C01_tucan hs₁ hs₂ hb hcp hpv hg hh hne cg ag hiso
    (fun key hk n hn => hattr key (List.mem_append_left _ hk) n hn) hdet fuel₁ fuel₂ hf₁ hf₂

/-! ## 7. C05: the emitted string is a sentence of the grammar and obeys the layout rules -/

/-- **C05** for the pipeline. Hypotheses of `C15_pipeline_total` plus: element symbols are keys of
`ELEMENT_ATTRS`, stored `mass` / `rad` values are positive integers. Then the pipeline returns a string `s`
that is a sentence of the published grammar; `s` is the text (`tucanSpec`) of a well-formed graph `ms` with
labels `0 … n-1` that is the input under a one-to-one renaming keeping every attribute but `partition` /
`explored`; labels run in blocks of non-decreasing atomic number (`Run.sorted`); the sum formula lists exactly
the element counts of the input; the attribute blocks belong to exactly the atoms with a mass or rad entry, in
strictly ascending index order; and if the input has no self-loops, neither has `ms`, every printed tuple `(a-b)`
has `1 ≤ a < b ≤ n`, the tuples are strictly ascending and are exactly the bonds, each once. -/
theorem C05_pipeline {env : DepEnv} (hs : env.SetLawful) (hb : BlissLawful env) {m : Graph}
    (hm : m.WF) (hne : m.nodeList ≠ []) (hc : Carries m "invariant_code") (ha : Carries m "atomic_number")
    (hsym : ∀ s ∈ symbolsOf m, s ∈ Tucan.Consts.ELEMENT_ATTRS.keys)
    (hmass : ∀ a ∈ m.nodeList, ∀ v, m.attr a "mass" = some v → Layout.Grammar.PosInt v)
    (hrad : ∀ a ∈ m.nodeList, ∀ v, m.attr a "rad" = some v → Layout.Grammar.PosInt v)
    (fuel₁ fuel₂ : Nat) (hf₁ : fuel₁ ≥ m.nodeList.length + 1) (hf₂ : fuel₂ ≥ fuelBound m) :
    ∃ c ms s, Run env fuel₁ fuel₂ m c ms s ∧ Layout.Grammar.tucan s ∧
      -- sum formula
      (symbolsOf ms).Perm (symbolsOf m) ∧
      sumFormulaSpec ms = ((hillOrder (symbolsOf m)).map (fun x => renderElem x ((symbolsOf m).count x))).flatten ∧
      -- attribute blocks
      ((Layout.labelled ms).Pairwise (fun p q => p.1 < q.1) ∧
        (∀ p, p ∈ Layout.labelled ms ↔ ms.node.get? p.1 = some p.2 ∧ Layout.hasProps p.2 = true) ∧
        (∀ p ∈ Layout.labelled ms, 1 ≤ p.1 + 1 ∧ p.1 + 1 ≤ m.numberOfNodes)) ∧
      -- bond tuples
      (m.Loopless → ms.Loopless ∧
        (∀ e ∈ Layout.bondList ms, 1 ≤ e.1 + 1 ∧ e.1 + 1 < e.2 + 1 ∧ e.2 + 1 ≤ m.numberOfNodes) ∧
        (Layout.bondList ms).Pairwise (fun a b => a.1 < b.1 ∨ (a.1 = b.1 ∧ a.2 < b.2)) ∧
        (∀ e ∈ Layout.bondList ms, e.2 ∈ ms.nbrs e.1) ∧
        (∀ u v, v ∈ ms.nbrs u → (Layout.bondList ms).count (min u v, max u v) = 1)) := by
  obtain ⟨c, ms, s, R⟩ := pipeline_run hs hb hm hne hc ha fuel₁ fuel₂ hf₁ hf₂
  obtain ⟨σ, r⟩ := R.renamed
  have hperm : (symbolsOf ms).Perm (symbolsOf m) := r.symbolsOf_perm (by decide) hm R.wf
  have hattr : ∀ key, Kept key → ∀ i ∈ ms.nodeList, ∀ v, ms.attr i key = some v →
      ∃ x ∈ m.nodeList, m.attr x key = some v := by
    intro key hk i hi v hv
    obtain ⟨x, hx, rfl⟩ := List.mem_map.1 (r.nodes.mem_iff.1 hi)
    exact ⟨x, hx, by rw [← r.attr key hk x hx]; exact hv⟩
  refine ⟨c, ms, s, R, ?_, hperm, ?_, Layout.blocks_layout R.wf R.nodes, ?_⟩
  · rw [R.text]
    apply Layout.Grammar.tucanSpec_in_grammar R.wf
    · intro a ha'
      exact ((Layout.mem_range_iff _ a).1 (R.nodes.mem_iff.1 ha')).1
    · intro x hx
      exact hsym x (hperm.mem_iff.1 hx)
    · intro i hi v hv
      obtain ⟨x, hx, e⟩ := hattr "mass" (by decide) i hi v hv
      exact hmass x hx v e
    · intro i hi v hv
      obtain ⟨x, hx, e⟩ := hattr "rad" (by decide) i hi v hv
      exact hrad x hx v e
  · exact sumFormulaSpec_congr' hperm
  · intro hl
    have hl' : ms.Loopless := r.loopless hm R.wf hl
    exact ⟨hl', Layout.tuples_layout R.wf hl' R.nodes⟩

end Contracts.Pipeline

/-! ## axioms -/
#print axioms Contracts.Pipeline.tucanSpec_agree_sorted
#print axioms Contracts.Pipeline.tucanSpec_same
#print axioms Contracts.Pipeline.assign_final_labels_agree
#print axioms Contracts.Pipeline.serialize_molecule_ok
#print axioms Contracts.Pipeline.serialize_molecule_agree
#print axioms Contracts.Pipeline.pipeline_run
#print axioms Contracts.Pipeline.C15_pipeline_total
#print axioms Contracts.Pipeline.C15_tucan_total
#print axioms Contracts.Pipeline.C01_main
#print axioms Contracts.Pipeline.C01_tucan
#print axioms Contracts.Pipeline.C06_graph_half
#print axioms Contracts.Pipeline.C05_pipeline
