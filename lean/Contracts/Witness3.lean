/-
Contracts.Witness3 — third audit pass (lean/AUDIT2.md, Addendum): instances of `ReaderPost.C05_any_reader_output` and
`ReaderPost.graph_from_molfile_text_post` on file classes no earlier C05 theorem covered:
 * the 19-line CRLF V3000 file with a star atom and an `ENDPTS` bond of `C07Star` §4 (`C05_star_witness`),
 * the V2000 file `D`–¹⁸O whose `M  ISO` line states mass 5 for the `D` atom, `V2000File.read_D_iso5` (`C05_D_iso5_witness`).
The run hypothesis `h : graph_from_molfile_text … = .ok g` is met, so the postcondition is not vacuous.
-/
import Contracts.ReaderPost
import Contracts.C07Star
import Contracts.V2000File
import Contracts.Witness
set_option autoImplicit false
open Py Py.Graph Contracts

namespace Contracts.Witness3
open Contracts.Witness (env0 env0_set env0_bliss)
open Contracts.FinalLabels (fuelBound)

/-- **`ReaderPost.C05_any_reader_output`, instance (star atom)**: the graph read from the star-atom file has the
identity facts, no self-loop, and the pipeline emits a sentence of the grammar for it -/
theorem C05_star_witness :
    ∃ g, Tucan.molfile_reader.graph_from_molfile_text BlissModel.env
        (((Reader.fileLines C07Star.starCtab C07Star.starDress).drop 4).length + 1)
        (join py!"\r\n" (Reader.fileLines C07Star.starCtab C07Star.starDress ++ [[]])) = .ok g ∧
      Final.IdOK g ∧ g.Loopless ∧
      ∃ c ms s, Pipeline.Run env0 (g.nodeList.length + 1) (fuelBound g) g c ms s ∧ Layout.Grammar.tucan s := by
  obtain ⟨g, hg, _, hn, _⟩ := C07Star.star_witness
  obtain ⟨_, ok, hl, _⟩ := ReaderPost.graph_from_molfile_text_post _ _ _ g hg
  have hne : g.nodeList ≠ [] := by rw [hn]; decide
  obtain ⟨c, ms, s, R, G, _⟩ := ReaderPost.C05_any_reader_output env0_set env0_bliss _ _ _ g hg hne _ _
    (le_refl _) (le_refl _)
  exact ⟨g, hg, ok, hl, c, ms, s, R, G⟩

/-- **`ReaderPost.C05_any_reader_output`, instance (V2000, `D` with a contradicting `M  ISO` entry)** -/
theorem C05_D_iso5_witness :
    ∃ g, Tucan.molfile_reader.graph_from_molfile_text env0 0
        (V2000File.renderV2000 py!"\n" V2000File.dMol V2000File.dChoice) = .ok g ∧
      Final.IdOK g ∧ g.Loopless ∧ g.attr 0 "mass" = some (Val.int 2) ∧
      ∃ c ms s, Pipeline.Run env0 (g.nodeList.length + 1) (fuelBound g) g c ms s ∧ Layout.Grammar.tucan s := by
  obtain ⟨g, hg, hn, _, hm, _⟩ := V2000File.read_D_iso5 env0 0 py!"\n" Reader.isSep_lf
  obtain ⟨_, ok, hl, _⟩ := ReaderPost.graph_from_molfile_text_post _ _ _ g hg
  have hne : g.nodeList ≠ [] := by rw [hn]; decide
  obtain ⟨c, ms, s, R, G, _⟩ := ReaderPost.C05_any_reader_output env0_set env0_bliss _ _ _ g hg hne _ _
    (le_refl _) (le_refl _)
  exact ⟨g, hg, ok, hl, hm, c, ms, s, R, G⟩

end Contracts.Witness3

#print axioms Contracts.Witness3.C05_star_witness
#print axioms Contracts.Witness3.C05_D_iso5_witness
