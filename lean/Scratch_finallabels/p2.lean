import Generated.Serialization
open Py Py.Graph
theorem t1 (x : Attrs) (name : String) :
    (getItem x name : M Val) = match x.get? name with | some v => .ok v | Option.none => .error Err.key := by
  show (match x.get? (toKey name) with | some v => pure v | Option.none => throw Err.key) = _
  rfl
theorem t2 (x : Attrs) (name : String) :
    (getItem x name : M Val) = match x.get? name with | some v => pure v | Option.none => throw Err.key := by
  rfl
theorem t3 (x : Attrs) (name : String) :
    (getItem x name : M Val) = match x.get? name with | some v => .ok v | Option.none => .error Err.key := by
  cases h : x.get? name <;> simp [getItem, GetItem.getItem, toKey, ToKey.toKey, h]
