import Spec.GraphLemmas
import Spec.Order
import Contracts.Relabel
import Contracts.Partition
import Generated.Serialization
open Py Py.Graph
set_option pp.proofs false
set_option pp.funBinderTypes true
example (env : DepEnv) (fuel : Nat) (m : Graph) (pr : List (Val → Val → Bool)) (x : M (Graph × Graph)) : Tucan.serialization._assign_final_labels env fuel m pr = x := by
  unfold Tucan.serialization._assign_final_labels
  trace_state
  sorry
example (env : DepEnv) (m : Graph) (x : M (Dict Val (List Int))) : Tucan.serialization._labels_by_partition env m = x := by
  unfold Tucan.serialization._labels_by_partition
  trace_state
  sorry
