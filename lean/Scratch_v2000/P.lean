import PyModel.Basic
import Mathlib.Data.List.TakeWhile
import Mathlib.Data.List.DropRight
open Py
set_option autoImplicit false
namespace Contracts.V2000

theorem isAsciiDigit_eq (c : Char) : isAsciiDigit c = c.isDigit := by
  unfold isAsciiDigit Char.isDigit
  simp only [Char.le_def, UInt32.le_iff_toNat_le]
  rw [Bool.eq_iff_iff]
  simp [UInt32.le_iff_toNat_le]

theorem not_space_of_digit (c : Char) (h : c.isDigit = true) : isPySpace c = false := by
  by_contra hs
  rw [Bool.not_eq_false] at hs
  unfold isPySpace at hs
  simp only [decide_eq_true_eq] at hs
  rcases hs with rfl|rfl|rfl|rfl|rfl|rfl|rfl|rfl|rfl|rfl|rfl|rfl <;> exact absurd h (by decide)

theorem rstrip_eq_self (ds : Str) (h : ∀ hne : ds ≠ [], isPySpace (ds.getLast hne) = false) : rstrip ds = ds := by
  unfold rstrip
  have := (List.rdropWhile_eq_self_iff (p := isPySpace) (l := ds)).2 (by simpa using h)
  simpa [List.rdropWhile] using this


theorem digit_ne (c : Char) (h : c.isDigit = true) : c ≠ '-' ∧ c ≠ '+' ∧ c ≠ '_' := by
  refine ⟨?_, ?_, ?_⟩ <;> rintro rfl <;> exact absurd h (by decide)

theorem isInfixOf_uu (ds : Str) (hd : ∀ c ∈ ds, c ≠ '_') : isInfixOf (py!"__") ds = false := by
  unfold isInfixOf
  rw [List.any_eq_false]
  intro t ht
  rw [List.mem_tails] at ht
  cases t with
  | nil => simp
  | cons c t =>
    have : c ∈ ds := ht.subset (by simp)
    have := hd c this
    simp only [List.isPrefixOf]
    intro e
    simp at e
    exact absurd e.1.symm this

theorem parseInt_digits_aux (neg : Bool) (sp ds : Str) (hsp : ∀ c ∈ sp, isPySpace c = true) (hne : ds ≠ [])
    (hd : ∀ c ∈ ds, c.isDigit = true) (hlen : ds.length ≤ 4300) :
    parseInt (sp ++ (if neg then '-' :: ds else ds)) =
      .ok (if neg then - (Nat.ofDigitChars 10 ds 0 : Int) else (Nat.ofDigitChars 10 ds 0 : Int)) := by
  obtain ⟨d, ds', rfl⟩ := List.exists_cons_of_ne_nil hne
  have hd0 := hd d (by simp)
  have hnu : ∀ c ∈ d :: ds', c ≠ '_' := fun c hc => (digit_ne c (hd c hc)).2.2
  have hlast : isPySpace ((d :: ds').getLast (by simp)) = false :=
    not_space_of_digit _ (hd _ (List.getLast_mem _))
  have hfilter : (d :: ds').filter (fun c => decide (c ≠ '_')) = d :: ds' := by
    rw [List.filter_eq_self]; intro c hc; simpa using hnu c hc
  have hall : (d :: ds').all isAsciiDigit = true := by
    rw [List.all_eq_true]; intro c hc; rw [isAsciiDigit_eq]; exact hd c hc
  cases neg
  · have h1 : (sp ++ d :: ds').dropWhile isPySpace = d :: ds' := by
      rw [List.dropWhile_append_of_pos hsp, List.dropWhile_cons_of_neg (by simp [not_space_of_digit d hd0])]
    have h2 : rstrip (d :: ds') = d :: ds' := rstrip_eq_self _ (fun _ => hlast)
    simp only [Bool.false_eq_true, if_false]
    unfold parseInt
    simp only [h1, h2]
    have hm : (match d :: ds' with
                | '-' :: r => (true, r)
                | '+' :: r => (false, r)
                | r => (false, r)) = (false, d :: ds') := by
      split
      · rename_i h; simp at h; exact absurd h.1 (digit_ne d hd0).1
      · rename_i h; simp at h; exact absurd h.1 (digit_ne d hd0).2.1
      · rfl
    rw [hm]
    trace_state
    sorry
  · sorry

end Contracts.V2000
