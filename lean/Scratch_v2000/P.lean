import PyModel.Basic
import Mathlib.Data.List.TakeWhile
import Mathlib.Data.List.DropRight
open Py
set_option autoImplicit false
namespace Contracts.V2000

theorem isAsciiDigit_eq (c : Char) : isAsciiDigit c = c.isDigit := by
  unfold isAsciiDigit Char.isDigit
  simp only [Char.le_def, UInt32.le_iff_toNat_le]
  rw [Bool.eq_iff_iff]
  simp

theorem not_space_of_digit (c : Char) (h : c.isDigit = true) : isPySpace c = false := by
  by_contra hs
  rw [Bool.not_eq_false] at hs
  unfold isPySpace at hs
  simp only [decide_eq_true_eq] at hs
  rcases hs with rfl|rfl|rfl|rfl|rfl|rfl|rfl|rfl|rfl|rfl|rfl|rfl <;> exact absurd h (by decide)

theorem rstrip_eq_self (ds : Str) (h : ∀ hne : ds ≠ [], isPySpace (ds.getLast hne) = false) : rstrip ds = ds := by
  unfold rstrip
  have := (List.rdropWhile_eq_self_iff (p := isPySpace) (l := ds)).2 (by simpa using h)
  simpa [List.rdropWhile] using this


theorem digit_ne (c : Char) (h : c.isDigit = true) : c ≠ '-' ∧ c ≠ '+' ∧ c ≠ '_' := by
  refine ⟨?_, ?_, ?_⟩ <;> rintro rfl <;> exact absurd h (by decide)

theorem isInfixOf_uu (ds : Str) (hd : ∀ c ∈ ds, c ≠ '_') : isInfixOf (py!"__") ds = false := by
  unfold isInfixOf
  rw [List.any_eq_false]
  intro t ht
  rw [List.mem_tails] at ht
  cases t with
  | nil => simp
  | cons c t =>
    have : c ∈ ds := ht.subset (by simp)
    have := hd c this
    simp only [List.isPrefixOf]
    intro e
    simp at e
    exact absurd e.1.symm this

/-- the sign split of `parseInt` -/
def signSplit (t : Str) : Bool × Str :=
  match t with
  | '-' :: r => (true, r)
  | '+' :: r => (false, r)
  | r => (false, r)

theorem parseInt_unfold (s : Str) : parseInt s =
    (let p := signSplit (rstrip (s.dropWhile isPySpace))
     let okUnderscores : Bool := p.2.head? ≠ some '_' ∧ p.2.getLast? ≠ some '_' ∧ isInfixOf (py!"__") p.2 = false
     let ds' := p.2.filter (· ≠ '_')
     if ds' = [] ∨ ds'.all isAsciiDigit = false ∨ okUnderscores = false ∨ ds'.length > intMaxStrDigits then throw .value
     else pure (if p.1 then - (digitsToNat ds' : Int) else (digitsToNat ds' : Int))) := by
  rfl

theorem signSplit_minus (r : Str) : signSplit ('-' :: r) = (true, r) := rfl

theorem signSplit_digit (d : Char) (r : Str) (h1 : d ≠ '-') (h2 : d ≠ '+') : signSplit (d :: r) = (false, d :: r) := by
  unfold signSplit
  split
  · rename_i h; simp at h; exact absurd h.1 h1
  · rename_i h; simp at h; exact absurd h.1 h2
  · rfl


theorem digitsToNat_eq (ds : Str) : digitsToNat ds = Nat.ofDigitChars 10 ds 0 := rfl

/-- `int()` of optional blanks, an optional minus sign and a non-empty run of at most 4300 ASCII digits -/
theorem parseInt_digits (neg : Bool) (sp ds : Str) (hsp : ∀ c ∈ sp, isPySpace c = true) (hne : ds ≠ [])
    (hd : ∀ c ∈ ds, c.isDigit = true) (hlen : ds.length ≤ 4300) :
    parseInt (sp ++ (if neg then '-' :: ds else ds)) =
      .ok (if neg then - (digitsToNat ds : Int) else (digitsToNat ds : Int)) := by
  obtain ⟨d, ds', rfl⟩ := List.exists_cons_of_ne_nil hne
  have hd0 := hd d (by simp)
  have hnu : ∀ c ∈ d :: ds', c ≠ '_' := fun c hc => (digit_ne c (hd c hc)).2.2
  have hlast : isPySpace ((d :: ds').getLast (by simp)) = false :=
    not_space_of_digit _ (hd _ (List.getLast_mem _))
  have hfilter : (d :: ds').filter (fun c => decide (c ≠ '_')) = d :: ds' := by
    rw [List.filter_eq_self]; intro c hc; simpa using hnu c hc
  have hall : (d :: ds').all isAsciiDigit = true := by
    rw [List.all_eq_true]; intro c hc; rw [isAsciiDigit_eq]; exact hd c hc
  have hhead : (d :: ds').head? ≠ some '_' := by simpa using hnu d (by simp)
  have hgl : (d :: ds').getLast? ≠ some '_' := by
    rw [List.getLast?_eq_some_getLast (by simp)]
    intro e; injection e with e
    exact hnu _ (List.getLast_mem _) e
  have hinf := isInfixOf_uu (d :: ds') hnu
  have hlen' : ¬ (d :: ds').length > intMaxStrDigits := by unfold intMaxStrDigits; omega
  have hsplit : signSplit (rstrip ((sp ++ (if neg then '-' :: d :: ds' else d :: ds')).dropWhile isPySpace)) =
      (neg, d :: ds') := by
    cases neg
    · have h1 : (sp ++ d :: ds').dropWhile isPySpace = d :: ds' := by
        rw [List.dropWhile_append_of_pos hsp, List.dropWhile_cons_of_neg (by simp [not_space_of_digit d hd0])]
      have h2 : rstrip (d :: ds') = d :: ds' := rstrip_eq_self _ (fun _ => hlast)
      simp only [Bool.false_eq_true, if_false, h1, h2]
      exact signSplit_digit d ds' (digit_ne d hd0).1 (digit_ne d hd0).2.1
    · have h1 : (sp ++ '-' :: d :: ds').dropWhile isPySpace = '-' :: d :: ds' := by
        rw [List.dropWhile_append_of_pos hsp, List.dropWhile_cons_of_neg (by decide)]
      have h2 : rstrip ('-' :: d :: ds') = '-' :: d :: ds' :=
        rstrip_eq_self _ (fun _ => by simpa [List.getLast_cons] using hlast)
      simp only [if_true, h1, h2]
      rfl
  rw [parseInt_unfold]
  simp only [hsplit, hfilter, hall, hinf, hlen']
  simp
  exact ⟨hnu d (by simp), hgl⟩


theorem pyStrInt_eq (n : Int) :
    pyStrInt n = if 0 ≤ n then Nat.toDigits 10 n.toNat else '-' :: Nat.toDigits 10 (-n).toNat := by
  unfold pyStrInt
  rw [Int.toString_eq_repr, Int.repr_eq_if]
  split <;> simp

/-- `int(str(n)) == n`, also with leading blanks (right-aligned fields) -/
theorem parseInt_pyStrInt (sp : Str) (hsp : ∀ c ∈ sp, isPySpace c = true) (n : Int) (hn : n.natAbs < 10 ^ 4300) :
    parseInt (sp ++ pyStrInt n) = .ok n := by
  rw [pyStrInt_eq]
  by_cases h : 0 ≤ n
  · have := parseInt_digits false sp (Nat.toDigits 10 n.toNat) hsp Nat.toDigits_ne_nil
      (fun c hc => Nat.isDigit_of_mem_toDigits (by decide) (by decide) hc)
      ((Nat.length_toDigits_le_iff (by decide) (by decide)).2 (by omega))
    simp only [Bool.false_eq_true, if_false, digitsToNat_eq, Nat.ofDigitChars_ten_toDigits] at this
    rw [if_pos h, this]
    congr 1; omega
  · have := parseInt_digits true sp (Nat.toDigits 10 (-n).toNat) hsp Nat.toDigits_ne_nil
      (fun c hc => Nat.isDigit_of_mem_toDigits (by decide) (by decide) hc)
      ((Nat.length_toDigits_le_iff (by decide) (by decide)).2 (by omega))
    simp only [if_true, digitsToNat_eq, Nat.ofDigitChars_ten_toDigits] at this
    rw [if_neg h, this]
    congr 1; omega

end Contracts.V2000
