import Generated.V2000
open Py
set_option autoImplicit false
example (add : Dict Int Attrs) (p : Int × Attrs) (f : Attrs → Attrs): (if (add.get? p.1).isSome = true then
      (p.1,
        match add.get? p.1 with
        | some extra => f extra
        | none => p.2)
    else p) =
    (p.1,
      match add.get? p.1 with
      | some extra => f extra
      | none => p.2) := by
  set_option pp.explicit true in trace_state
  cases h : add.get? p.1 <;> simp
