import Generated.V2000
open Py
set_option autoImplicit false
theorem getItem_dict_int (d : Dict Int Attrs) (k : Int) :
    (getItem d k : M Attrs) = (match d.get? k with | some v => Except.ok v | none => Except.error Err.key) := by
  simp only [getItem, toKey]
  trace_state
  cases d.get? k <;> rfl
