import Generated.V2000
import Mathlib.Data.List.TakeWhile
import Mathlib.Data.List.DropRight
open Py
set_option autoImplicit false
namespace Contracts.V2000
open Tucan.molfile_v2000_reader
def field (l : Str) (start len : Nat) : Str := (l.drop start).take len
def fieldInt (s : Str) : M Int := if s.all (· = ' ') then pure 0 else parseInt s

theorem dropWhile_reverse_dropWhile_eq_nil {α} (p : α → Bool) (s : List α) :
    ((s.dropWhile p).reverse.dropWhile p) = [] ↔ s.all p = true := by
  rw [List.dropWhile_eq_nil_iff]
  constructor
  · intro h
    have : s.dropWhile p = [] := by
      by_contra hne
      have h1 := List.head_dropWhile_not p hne
      have h2 := h ((s.dropWhile p).head hne) (by simp)
      simp [h2] at h1
    rw [List.dropWhile_eq_nil_iff] at this
    simpa using this
  · intro h
    have : s.dropWhile p = [] := by
      rw [List.dropWhile_eq_nil_iff]; simpa using h
    simp [this]

theorem stripChar_eq_nil (s : Str) (c : Char) : stripChar s c = [] ↔ s.all (· = c) = true := by
  unfold stripChar
  rw [List.reverse_eq_nil_iff]
  exact dropWhile_reverse_dropWhile_eq_nil _ _

theorem _to_int_eq (env : DepEnv) (s : Str) : _to_int env s = fieldInt s := by
  unfold _to_int fieldInt
  by_cases h : s.all (· = ' ') = true
  · have := (stripChar_eq_nil s ' ').2 h
    simp [truthy, this, h]
  · have : stripChar s ' ' ≠ [] := fun e => h ((stripChar_eq_nil s ' ').1 e)
    simp [truthy, this, h]

theorem slice_eq_field {α} (l : List α) (x y : Int) (a len : Nat) (hx : x = a) (hy : y = a + len) :
    slice l (some x) (some y) = (l.drop a).take len := by
  subst hx hy
  unfold slice clampIndex
  have h1 : ¬ ((a : Int) < 0) := by omega
  have h2 : ¬ ((a : Int) + len < 0) := by omega
  have h3 : ((a : Int) + len).toNat = a + len := by omega
  have h4 : (a : Int).toNat = a := by omega
  simp only [h1, h2, h3, h4, if_false]
  rw [List.drop_take]
  by_cases h : a ≤ l.length
  · rw [Nat.min_eq_left h, List.take_eq_take_iff]
    simp only [List.length_drop]
    omega
  · have e1 : l.drop a = [] := List.drop_eq_nil_of_le (by omega)
    have e2 : l.drop (min a l.length) = [] := List.drop_eq_nil_of_le (by omega)
    simp [e1, e2]
def parserException : Err := Err.custom "MolfileParserException"
def propEntry (atoms : Dict Int Attrs) (l : Str) (i : Nat) : M (Int × Int) := do
  let a ← fieldInt (field l (10 + 8 * i) 3)
  let v ← fieldInt (field l (14 + 8 * i) 3)
  if atoms.contains (a - 1) then pure (a - 1, v) else throw parserException

/-- the entries of a property line: count in columns 6…8 -/
def propEntries (atoms : Dict Int Attrs) (l : Str) : M (List (Int × Int)) := do
  let n ← fieldInt (field l 6 3)
  (List.range n.toNat).mapM (propEntry atoms l)

/-- a `for` loop that appends one computed item per iteration is `mapM` -/
theorem forIn_collect {α β : Type} (l : List α) (g : α → M β) (body : α → List β → M (ForInStep (List β)))
    (h : ∀ x ∈ l, ∀ acc, body x acc = (do let y ← g x; pure (.yield (acc ++ [y])))) (acc : List β) :
    forIn l acc body = (do let ys ← l.mapM g; pure (acc ++ ys)) := by
  induction l generalizing acc with
  | nil => simp
  | cons x l ih =>
    rw [List.forIn_cons, h x (by simp), List.mapM_cons]
    simp only [bind_assoc, Py.pure_eq_ok, Py.ok_bind]
    cases g x with
    | error e => rfl
    | ok y =>
      simp only [Py.ok_bind]
      rw [ih (fun z hz => h z (by simp [hz]))]
      cases l.mapM g with
      | error e => rfl
      | ok ys => simp

theorem _parse_atom_value_assignments_eq (env : DepEnv) (l : Str) (atoms : Dict Int Attrs) :
    _parse_atom_value_assignments env l atoms = propEntries atoms l := by
  unfold _parse_atom_value_assignments propEntries
  simp only [_to_int_eq, Py.pure_eq_ok, pyIter_list, pyAdd_int, pyAdd_list, _validate_atom_index, pyContains_dict]
  rw [slice_eq_field l 6 9 6 3 rfl rfl]
  show (fieldInt (field l 6 3) >>= _) = _
  cases fieldInt (field l 6 3) with
  | error e => rfl
  | ok n =>
    simp only [Py.ok_bind]
    rw [forIn_collect (g := fun i : Int => propEntry atoms l i.toNat)]
    · simp only [Py.range, List.mapM_map, List.nil_append]
      have : ((fun i : Int => propEntry atoms l i.toNat) ∘ Int.ofNat) = propEntry atoms l := by
        funext i; simp
      rw [this]
      cases List.mapM (propEntry atoms l) (List.range n.toNat) <;> rfl
    · intro i hi acc
      simp only [Py.range, List.mem_map, List.mem_range] at hi
      obtain ⟨j, hj, rfl⟩ := hi
      rw [slice_eq_field l _ _ (10 + 8 * j) 3 (by simp only [Int.ofNat_eq_natCast]; push_cast; ring) (by simp only [Int.ofNat_eq_natCast]; push_cast; ring),
        slice_eq_field l _ _ (14 + 8 * j) 3 (by simp only [Int.ofNat_eq_natCast]; push_cast; ring) (by simp only [Int.ofNat_eq_natCast]; push_cast; ring)]
      unfold propEntry field
      simp only [Int.ofNat_eq_natCast, Int.toNat_natCast, parserException, Py.pure_eq_ok, Py.throw_eq_error, bind_assoc]
      cases fieldInt (List.take 3 (List.drop (10 + 8 * j) l)) with
      | error e => rfl
      | ok a =>
        simp only [Py.ok_bind]
        cases fieldInt (List.take 3 (List.drop (14 + 8 * j) l)) with
        | error e => rfl
        | ok v =>
          simp only [Py.ok_bind]
          cases atoms.contains (a - 1) <;> rfl
end Contracts.V2000
