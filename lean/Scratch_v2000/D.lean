import Generated.V2000
open Py
set_option autoImplicit false
set_option linter.unusedSimpArgs false
set_option linter.unusedSectionVars false

namespace Contracts.V2000

/-! ### general facts about the insertion-ordered dict model -/
section DictLemmas
variable {κ ν : Type} [DecidableEq κ]

/-- the invariant of every real Python dict: keys are distinct -/
def WF (d : Dict κ ν) : Prop := d.keys.Nodup

theorem wf_empty : WF (Dict.empty : Dict κ ν) := by simp [WF, Dict.keys, Dict.empty]

@[simp] theorem get?_empty (k : κ) : (Dict.empty : Dict κ ν).get? k = none := rfl

theorem lookup_eq_none_iff_not_mem_keys (l : List (κ × ν)) (k : κ) :
    l.lookup k = none ↔ k ∉ l.map Prod.fst := by
  induction l with
  | nil => simp
  | cons p l ih =>
    obtain ⟨a, b⟩ := p
    by_cases h : k = a
    · subst h; simp [List.lookup_cons]
    · have : (k == a) = false := by simpa using h
      simp [List.lookup_cons, this, ih, h]

theorem contains_iff_mem_keys (d : Dict κ ν) (k : κ) : d.contains k = true ↔ k ∈ d.keys := by
  unfold Dict.contains Dict.get? Dict.keys
  rw [← not_iff_not, Bool.not_eq_true, Option.isSome_eq_false_iff, Option.isNone_iff_eq_none]
  exact lookup_eq_none_iff_not_mem_keys _ _

theorem contains_eq_isSome (d : Dict κ ν) (k : κ) : d.contains k = (d.get? k).isSome := rfl

theorem lookup_map_set (l : List (κ × ν)) (k k' : κ) (v : ν) :
    (l.map (fun p => if p.1 = k then (k, v) else p)).lookup k' =
      if k' = k then (l.lookup k).map (fun _ => v) else l.lookup k' := by
  induction l with
  | nil => simp
  | cons p l ih =>
    obtain ⟨a, b⟩ := p
    by_cases hk : k' = k
    · subst hk
      by_cases ha : a = k'
      · subst ha; simp [List.lookup_cons]
      · have : (k' == a) = false := by simpa using (Ne.symm ha)
        simp only [List.map_cons, ha, if_false, List.lookup_cons, this]
        simpa using ih
    · by_cases ha : a = k
      · subst ha
        have : (k' == a) = false := by simpa using hk
        simp only [List.map_cons, if_true, List.lookup_cons, this]
        simpa [hk] using ih
      · simp only [List.map_cons, ha, if_false, List.lookup_cons]
        cases h : (k' == a)
        · simpa [hk] using ih
        · simp [hk]

theorem get?_set (d : Dict κ ν) (k k' : κ) (v : ν) :
    (d.set k v).get? k' = if k' = k then some v else d.get? k' := by
  unfold Dict.set
  by_cases hc : d.contains k = true
  · rw [if_pos hc]
    show List.lookup k' (d.items.map _) = _
    rw [lookup_map_set]
    by_cases hk : k' = k
    · subst hk
      rw [contains_eq_isSome, Option.isSome_iff_exists] at hc
      obtain ⟨x, hx⟩ := hc
      simp [Dict.get?] at hx
      simp [hx]
    · simp [hk, Dict.get?]
  · rw [if_neg hc]
    show List.lookup k' (d.items ++ [(k, v)]) = _
    rw [List.lookup_append]
    by_cases hk : k' = k
    · subst hk
      have hn : List.lookup k' d.items = none := by
        rw [contains_eq_isSome, Bool.not_eq_true, Option.isSome_eq_false_iff, Option.isNone_iff_eq_none] at hc
        exact hc
      simp [hn, List.lookup_cons]
    · have : (k' == k) = false := by simpa using hk
      simp [hk, Dict.get?, List.lookup_cons, this]

theorem keys_set (d : Dict κ ν) (k : κ) (v : ν) :
    (d.set k v).keys = if d.contains k then d.keys else d.keys ++ [k] := by
  unfold Dict.set
  by_cases hc : d.contains k = true
  · simp only [hc, if_true, Dict.keys, List.map_map]
    apply List.map_congr_left
    intro p _
    by_cases h : p.1 = k <;> simp [h]
  · simp [hc, Dict.keys]

theorem wf_set (d : Dict κ ν) (k : κ) (v : ν) (h : WF d) : WF (d.set k v) := by
  unfold WF at *
  rw [keys_set]
  by_cases hc : d.contains k = true
  · simpa [hc] using h
  · simp only [hc]
    have : k ∉ d.keys := by rwa [← contains_iff_mem_keys]
    simp [List.nodup_append, h, this]
    intro a ha hak; exact this (hak ▸ ha)

theorem contains_set (d : Dict κ ν) (k k' : κ) (v : ν) :
    (d.set k v).contains k' = (decide (k' = k) || d.contains k') := by
  rw [contains_eq_isSome, get?_set, contains_eq_isSome]
  by_cases h : k' = k <;> simp [h]

theorem get?_erase (d : Dict κ ν) (k k' : κ) :
    (d.erase k).get? k' = if k' = k then none else d.get? k' := by
  unfold Dict.erase Dict.get?
  simp only
  induction d.items with
  | nil => simp
  | cons p l ih =>
    obtain ⟨a, b⟩ := p
    by_cases ha : a = k
    · subst ha
      simp only [List.filter_cons, ne_eq, not_true_eq_false, decide_false, Bool.false_eq_true, if_false, ih]
      by_cases hk : k' = a
      · simp [hk]
      · have : (k' == a) = false := by simpa using hk
        simp [hk, List.lookup_cons, this]
    · simp only [List.filter_cons, ne_eq, ha, not_false_eq_true, decide_true, if_true, List.lookup_cons, ih]
      by_cases hk : k' = k
      · subst hk
        have : (k' == a) = false := by simpa using (Ne.symm ha)
        simp [this]
      · simp [hk]

theorem keys_erase (d : Dict κ ν) (k : κ) : (d.erase k).keys = d.keys.filter (· ≠ k) := by
  unfold Dict.erase Dict.keys
  simp only [List.filter_map]
  rfl

theorem wf_erase (d : Dict κ ν) (k : κ) (h : WF d) : WF (d.erase k) := by
  unfold WF at *; rw [keys_erase]; exact h.filter _

/-- `d.update(e)` / `d |= e` for a well-formed `e`: entries of `e` win -/
theorem get?_updatePairs (l : List (κ × ν)) (hl : (l.map Prod.fst).Nodup) (d : Dict κ ν) (k : κ) :
    (d.updatePairs l).get? k = (l.lookup k).or (d.get? k) := by
  induction l generalizing d with
  | nil => simp [Dict.updatePairs]
  | cons p l ih =>
    obtain ⟨a, b⟩ := p
    simp only [List.map_cons, List.nodup_cons] at hl
    show ((d.set a b).updatePairs l).get? k = _
    rw [ih hl.2, get?_set]
    by_cases hk : k = a
    · subst hk
      have : l.lookup k = none := (lookup_eq_none_iff_not_mem_keys _ _).2 hl.1
      simp [this, List.lookup_cons]
    · have : (k == a) = false := by simpa using hk
      simp [hk, List.lookup_cons, this]

theorem wf_updatePairs (l : List (κ × ν)) (d : Dict κ ν) (h : WF d) : WF (d.updatePairs l) := by
  induction l generalizing d with
  | nil => exact h
  | cons p l ih => exact ih _ (wf_set _ _ _ h)

theorem keys_updatePairs_of_subset (l : List (κ × ν)) (d : Dict κ ν) (h : ∀ p ∈ l, d.contains p.1 = true) :
    (d.updatePairs l).keys = d.keys := by
  induction l generalizing d with
  | nil => rfl
  | cons p l ih =>
    show ((d.set p.1 p.2).updatePairs l).keys = _
    rw [ih]
    · rw [keys_set, h p (by simp)]; rfl
    · intro q hq; rw [contains_set, h q (by simp [hq])]; simp

theorem get?_update (d e : Dict κ ν) (he : WF e) (k : κ) :
    (d.update e).get? k = (e.get? k).or (d.get? k) := get?_updatePairs e.items he d k

theorem get?_ofPairs (l : List (κ × ν)) (hl : (l.map Prod.fst).Nodup) (k : κ) :
    (Dict.ofPairs l).get? k = l.lookup k := by
  have := get?_updatePairs l hl (Dict.empty : Dict κ ν) k
  simp only [get?_empty, Option.or_none] at this
  exact this

theorem wf_ofPairs (l : List (κ × ν)) : WF (Dict.ofPairs l) := wf_updatePairs l _ wf_empty

theorem lookup_filter (l : List (κ × ν)) (hl : (l.map Prod.fst).Nodup) (q : κ × ν → Bool) (k : κ) :
    (l.filter q).lookup k = (l.lookup k).filter (fun v => q (k, v)) := by
  induction l with
  | nil => simp
  | cons p l ih =>
    obtain ⟨a, b⟩ := p
    simp only [List.map_cons, List.nodup_cons] at hl
    by_cases hk : k = a
    · subst hk
      have hn : l.lookup k = none := (lookup_eq_none_iff_not_mem_keys _ _).2 hl.1
      cases hq : q (k, b)
      · simp [List.filter_cons, hq, ih hl.2, hn, List.lookup_cons, Option.filter]
      · simp [List.filter_cons, hq, List.lookup_cons, Option.filter]
    · have : (k == a) = false := by simpa using hk
      cases hq : q (a, b)
      · simp [List.filter_cons, hq, ih hl.2, List.lookup_cons, this]
      · simp [List.filter_cons, hq, ih hl.2, List.lookup_cons, this]

end DictLemmas

end Contracts.V2000
