import Generated.V2000
open Py
set_option autoImplicit false

example (key : String) (v : Int) : (Dict.ofPairs [(key, toVal v)] : Attrs) = (Dict.empty : Attrs).set key (Val.int v) := rfl

theorem t (env : DepEnv) (key : String) (atoms : Dict Int Attrs) : Tucan.molfile_v2000_reader._clear_atom_attribute env key atoms = .ok atoms := by
  unfold Tucan.molfile_v2000_reader._clear_atom_attribute
  simp only [Py.ok_bind, Py.pure_eq_ok, setItem_dict]
  trace_state
  sorry

theorem t2 (env : DepEnv) (l :  List Str) (atoms : Dict Int Attrs) : Tucan.molfile_v2000_reader._parse_attribute_block env l atoms = .ok atoms := by
  unfold Tucan.molfile_v2000_reader._parse_attribute_block
  simp only [Py.ok_bind, Py.pure_eq_ok, setItem_dict]
  trace_state
  sorry
