import Contracts.V2000
open Py
set_option autoImplicit false
set_option linter.unusedSimpArgs false
namespace Contracts.V2000
open Tucan.molfile_v2000_reader

theorem pyStrInt_ne_nil (n : Int) : pyStrInt n ≠ [] := by
  rw [pyStrInt_eq]; split <;> simp

theorem pyStrInt_not_blank (sp : Str) (n : Int) : (sp ++ pyStrInt n).all (· = ' ') = false := by
  rw [pyStrInt_eq]
  have key : ∀ m, (Nat.toDigits 10 m).all (· = ' ') = false := by
    intro m
    obtain ⟨d, ds, h⟩ := List.exists_cons_of_ne_nil (Nat.toDigits_ne_nil (n := m) (b := 10))
    have hd : d.isDigit = true := Nat.isDigit_of_mem_toDigits (b := 10) (n := m) (by decide) (by decide) (by rw [h]; simp)
    have : d ≠ ' ' := by rintro rfl; exact absurd hd (by decide)
    rw [h]; simp [this]
  split
  · simp [List.all_append, key]
  · simp [List.all_append, key]

theorem fieldInt_blank (s : Str) (h : ∀ c ∈ s, c = ' ') : fieldInt s = .ok 0 := by
  unfold fieldInt
  have : s.all (· = ' ') = true := by simpa using h
  simp [this]

theorem fieldInt_padLeft (n : Int) (w : Nat) (hn : n.natAbs < 10 ^ 4300) :
    fieldInt (padLeft (pyStrInt n) w ' ') = .ok n := by
  unfold fieldInt padLeft
  rw [pyStrInt_not_blank]
  simp only [Bool.false_eq_true, if_false]
  exact parseInt_pyStrInt _ (by intro c hc; rw [List.mem_replicate] at hc; rw [hc.2]; decide) n hn

/-- **item 1**: a blank field is 0; a right-aligned decimal field is its number -/
theorem _to_int_blank (env : DepEnv) (s : Str) (h : ∀ c ∈ s, c = ' ') : _to_int env s = .ok 0 := by
  rw [_to_int_eq]; exact fieldInt_blank s h

theorem _to_int_ok (env : DepEnv) (n : Int) (w : Nat) (hn : n.natAbs < 10 ^ 4300) :
    _to_int env (padLeft (pyStrInt n) w ' ') = .ok n := by
  rw [_to_int_eq]; exact fieldInt_padLeft n w hn

/-- the three-column rendering of a number -/
def fmt3 (n : Int) : Str := padLeft (pyStrInt n) 3 ' '

theorem length_pyStrInt_le3 (n : Int) (h1 : -99 ≤ n) (h2 : n ≤ 999) : (pyStrInt n).length ≤ 3 := by
  rw [pyStrInt_eq]
  split
  · exact (Nat.length_toDigits_le_iff (by decide) (by decide)).2 (by omega)
  · have := (Nat.length_toDigits_le_iff (b := 10) (n := (-n).toNat) (k := 2) (by decide) (by decide)).2 (by omega)
    simp only [List.length_cons]; omega

theorem length_fmt3 (n : Int) (h1 : -99 ≤ n) (h2 : n ≤ 999) : (fmt3 n).length = 3 := by
  have := length_pyStrInt_le3 n h1 h2
  simp only [fmt3, padLeft, List.length_append, List.length_replicate]; omega

theorem fieldInt_fmt3 (n : Int) (h1 : -99 ≤ n) (h2 : n ≤ 999) : fieldInt (fmt3 n) = .ok n :=
  fieldInt_padLeft n 3 (by
    have : (999 : Nat) < 10 ^ 4300 := by
      calc (999 : Nat) < 10 ^ 3 := by norm_num
        _ ≤ 10 ^ 4300 := Nat.pow_le_pow_right (by norm_num) (by norm_num)
    omega)


/-! ### item 2: property lines as the format renders them -/

/-- one entry ` aaa vvv` (8 columns) -/
def renderEntry (e : Nat × Int) : Str := ' ' :: fmt3 e.1 ++ ' ' :: fmt3 e.2

/-- `M  XXXnn8 aaa vvv …`: six-column tag, three-column count, then the entries -/
def renderProp (tag : Str) (es : List (Nat × Int)) : Str :=
  tag ++ fmt3 es.length ++ es.flatMap renderEntry

/-- the numbers fit their three columns -/
def EntryFits (e : Nat × Int) : Prop := e.1 ≤ 999 ∧ -99 ≤ e.2 ∧ e.2 ≤ 999

theorem length_renderEntry (e : Nat × Int) (h : EntryFits e) : (renderEntry e).length = 8 := by
  obtain ⟨h1, h2, h3⟩ := h
  simp only [renderEntry, List.length_cons, List.length_append, length_fmt3 e.1 (by omega) (by omega),
    length_fmt3 e.2 h2 h3]

theorem drop_len_add {α : Type} (l₁ l₂ : List α) (n k : Nat) (h : l₁.length = n) :
    (l₁ ++ l₂).drop (n + k) = l₂.drop k := by
  subst h
  rw [List.drop_append, List.drop_eq_nil_of_le (by omega)]
  simp

theorem drop_flatMap_renderEntry (es : List (Nat × Int)) (h : ∀ e ∈ es, EntryFits e) (i : Nat) :
    (es.flatMap renderEntry).drop (8 * i) = (es.drop i).flatMap renderEntry := by
  induction es generalizing i with
  | nil => simp
  | cons e es ih =>
    cases i with
    | zero => simp
    | succ i =>
      have hl := length_renderEntry e (h e (by simp))
      rw [List.flatMap_cons, List.drop_succ_cons, ← ih (fun x hx => h x (by simp [hx]))]
      rw [show 8 * (i + 1) = 8 + 8 * i by omega, drop_len_add _ _ _ _ hl]

theorem mapM_ok {α β : Type} (l : List α) (f : α → M β) (g : α → β) (h : ∀ x ∈ l, f x = .ok (g x)) :
    l.mapM f = .ok (l.map g) := by
  induction l with
  | nil => rfl
  | cons x l ih =>
    rw [List.mapM_cons, h x (by simp), ih (fun y hy => h y (by simp [hy]))]; rfl

theorem mapM_reject {α β : Type} (l : List α) (f : α → M β) (e : Err)
    (h : ∀ x ∈ l, (∃ y, f x = .ok y) ∨ f x = .error e) (hex : ∃ x ∈ l, f x = .error e) :
    l.mapM f = .error e := by
  induction l with
  | nil => simp at hex
  | cons x l ih =>
    rw [List.mapM_cons]
    rcases h x (by simp) with ⟨y, hy⟩ | hx
    · rw [hy]
      obtain ⟨z, hz, hze⟩ := hex
      have hzl : z ∈ l := by
        rcases List.mem_cons.1 hz with rfl | hzl
        · rw [hy] at hze; cases hze
        · exact hzl
      rw [ih (fun w hw => h w (by simp [hw])) ⟨z, hzl, hze⟩]; rfl
    · rw [hx]; rfl

theorem field_renderProp_count (tag : Str) (htag : tag.length = 6) (es : List (Nat × Int)) (hlen : es.length ≤ 999) :
    field (renderProp tag es) 6 3 = fmt3 es.length := by
  unfold field renderProp
  rw [List.append_assoc, List.drop_left' htag, List.take_left' (length_fmt3 _ (by omega) (by omega))]

theorem drop_renderProp (tag : Str) (htag : tag.length = 6) (es : List (Nat × Int)) (hlen : es.length ≤ 999)
    (h : ∀ e ∈ es, EntryFits e) (i : Nat) :
    (renderProp tag es).drop (9 + 8 * i) = (es.drop i).flatMap renderEntry := by
  unfold renderProp
  have : (tag ++ fmt3 es.length).length = 9 := by
    rw [List.length_append, htag, length_fmt3 _ (by omega) (by omega)]
  rw [drop_len_add _ _ _ _ this, drop_flatMap_renderEntry es h]

theorem propEntry_renderProp (atoms : Dict Int Attrs) (tag : Str) (htag : tag.length = 6) (es : List (Nat × Int))
    (hlen : es.length ≤ 999) (h : ∀ e ∈ es, EntryFits e) (i : Nat) (hi : i < es.length) :
    propEntry atoms (renderProp tag es) i =
      if atoms.contains ((es[i].1 : Int) - 1) then .ok ((es[i].1 : Int) - 1, es[i].2) else .error parserException := by
  have hf := h es[i] (List.getElem_mem hi)
  have hd : es.drop i = es[i] :: es.drop (i + 1) := List.drop_eq_getElem_cons hi
  have ha : field (renderProp tag es) (10 + 8 * i) 3 = fmt3 es[i].1 := by
    unfold field
    rw [show 10 + 8 * i = (9 + 8 * i) + 1 by omega, ← List.drop_drop, drop_renderProp tag htag es hlen h, hd,
      List.flatMap_cons]
    simp only [renderEntry, List.cons_append, List.drop_succ_cons, List.drop_zero, List.append_assoc]
    exact List.take_left' (length_fmt3 _ (by omega) (by have := hf.1; omega))
  have hv : field (renderProp tag es) (14 + 8 * i) 3 = fmt3 es[i].2 := by
    unfold field
    rw [show 14 + 8 * i = (9 + 8 * i) + 5 by omega, ← List.drop_drop, drop_renderProp tag htag es hlen h, hd,
      List.flatMap_cons]
    simp only [renderEntry, List.cons_append, List.drop_succ_cons, List.append_assoc]
    rw [show (4 : Nat) = 3 + 1 from rfl,
      drop_len_add _ _ 3 1 (length_fmt3 _ (by omega) (by have := hf.1; omega))]
    show List.take 3 (fmt3 es[i].2 ++ _) = _
    exact List.take_left' (length_fmt3 _ hf.2.1 hf.2.2)
  unfold propEntry
  rw [ha, hv, fieldInt_fmt3 _ (by omega) (by have := hf.1; omega), fieldInt_fmt3 _ hf.2.1 hf.2.2]
  simp only [Py.ok_bind]
  split <;> rfl


/-- what a rendered entry list means: 0-based atom index and value -/
def entryVals (es : List (Nat × Int)) : List (Int × Int) := es.map (fun e => ((e.1 : Int) - 1, e.2))

theorem propEntries_renderProp (atoms : Dict Int Attrs) (tag : Str) (htag : tag.length = 6) (es : List (Nat × Int))
    (hlen : es.length ≤ 999) (h : ∀ e ∈ es, EntryFits e)
    (hatoms : ∀ e ∈ es, atoms.contains ((e.1 : Int) - 1) = true) :
    propEntries atoms (renderProp tag es) = .ok (entryVals es) := by
  unfold propEntries
  rw [field_renderProp_count tag htag es hlen, fieldInt_fmt3 _ (by omega) (by omega)]
  simp only [Py.ok_bind, Int.toNat_natCast]
  rw [mapM_ok _ _ (fun i => (((es.getD i (0, 0)).1 : Int) - 1, (es.getD i (0, 0)).2))]
  · congr 1
    unfold entryVals
    apply List.ext_getElem
    · simp
    · intro i h1 h2
      simp at h1
      simp [h1]
  · intro i hi
    rw [List.mem_range] at hi
    rw [propEntry_renderProp atoms tag htag es hlen h i hi, if_pos (hatoms _ (List.getElem_mem hi))]
    simp [hi]

theorem propEntries_renderProp_reject (atoms : Dict Int Attrs) (tag : Str) (htag : tag.length = 6)
    (es : List (Nat × Int)) (hlen : es.length ≤ 999) (h : ∀ e ∈ es, EntryFits e)
    (hbad : ∃ e ∈ es, atoms.contains ((e.1 : Int) - 1) = false) :
    propEntries atoms (renderProp tag es) = .error parserException := by
  unfold propEntries
  rw [field_renderProp_count tag htag es hlen, fieldInt_fmt3 _ (by omega) (by omega)]
  simp only [Py.ok_bind, Int.toNat_natCast]
  apply mapM_reject
  · intro i hi
    rw [List.mem_range] at hi
    rw [propEntry_renderProp atoms tag htag es hlen h i hi]
    split
    · exact Or.inl ⟨_, rfl⟩
    · exact Or.inr rfl
  · obtain ⟨e, he, hc⟩ := hbad
    obtain ⟨i, hi, rfl⟩ := List.getElem_of_mem he
    refine ⟨i, List.mem_range.2 hi, ?_⟩
    rw [propEntry_renderProp atoms tag htag es hlen h i hi, hc]
    rfl

/-- **item 2**: the entries of a rendered property line are read back (0-based atom indices);
an atom number that is not an atom is rejected -/
theorem _parse_atom_value_assignments_ok (env : DepEnv) (atoms : Dict Int Attrs) (tag : Str) (htag : tag.length = 6)
    (es : List (Nat × Int)) (hlen : es.length ≤ 999) (h : ∀ e ∈ es, EntryFits e)
    (hatoms : ∀ e ∈ es, atoms.contains ((e.1 : Int) - 1) = true) :
    _parse_atom_value_assignments env (renderProp tag es) atoms = .ok (entryVals es) := by
  rw [_parse_atom_value_assignments_eq]; exact propEntries_renderProp atoms tag htag es hlen h hatoms

theorem _parse_atom_value_assignments_reject (env : DepEnv) (atoms : Dict Int Attrs) (tag : Str)
    (htag : tag.length = 6) (es : List (Nat × Int)) (hlen : es.length ≤ 999) (h : ∀ e ∈ es, EntryFits e)
    (hbad : ∃ e ∈ es, atoms.contains ((e.1 : Int) - 1) = false) :
    _parse_atom_value_assignments env (renderProp tag es) atoms = .error (Err.custom "MolfileParserException") := by
  rw [_parse_atom_value_assignments_eq]; exact propEntries_renderProp_reject atoms tag htag es hlen h hbad

end Contracts.V2000
