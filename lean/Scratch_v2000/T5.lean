import Mathlib.Tactic
open List
#check @List.dropWhile_eq_nil_iff
#check @List.head_dropWhile_not
example {α} (p : α → Bool) (l : List α) : l.dropWhile p = [] ↔ ∀ x ∈ l, p x = true := by exact?
#check @List.drop_take
#check @List.take_drop
