import Generated.V2000
import Mathlib.Data.List.TakeWhile
import Mathlib.Data.List.DropRight
open Py
set_option autoImplicit false
namespace Contracts.V2000
open Tucan.molfile_v2000_reader
def field (l : Str) (start len : Nat) : Str := (l.drop start).take len
def fieldInt (s : Str) : M Int := if s.all (· = ' ') then pure 0 else parseInt s

theorem dropWhile_reverse_dropWhile_eq_nil {α} (p : α → Bool) (s : List α) :
    ((s.dropWhile p).reverse.dropWhile p) = [] ↔ s.all p = true := by
  rw [List.dropWhile_eq_nil_iff]
  constructor
  · intro h
    have : s.dropWhile p = [] := by
      by_contra hne
      have h1 := List.head_dropWhile_not p hne
      have h2 := h ((s.dropWhile p).head hne) (by simp)
      simp [h2] at h1
    rw [List.dropWhile_eq_nil_iff] at this
    simpa using this
  · intro h
    have : s.dropWhile p = [] := by
      rw [List.dropWhile_eq_nil_iff]; simpa using h
    simp [this]

theorem stripChar_eq_nil (s : Str) (c : Char) : stripChar s c = [] ↔ s.all (· = c) = true := by
  unfold stripChar
  rw [List.reverse_eq_nil_iff]
  exact dropWhile_reverse_dropWhile_eq_nil _ _

theorem _to_int_eq (env : DepEnv) (s : Str) : _to_int env s = fieldInt s := by
  unfold _to_int fieldInt
  by_cases h : s.all (· = ' ') = true
  · have := (stripChar_eq_nil s ' ').2 h
    simp [truthy, this, h]
  · have : stripChar s ' ' ≠ [] := fun e => h ((stripChar_eq_nil s ' ').1 e)
    simp [truthy, this, h]

theorem slice_eq_field {α} (l : List α) (x y : Int) (a len : Nat) (hx : x = a) (hy : y = a + len) :
    slice l (some x) (some y) = (l.drop a).take len := by
  subst hx hy
  unfold slice clampIndex
  have h1 : ¬ ((a : Int) < 0) := by omega
  have h2 : ¬ ((a : Int) + len < 0) := by omega
  have h3 : ((a : Int) + len).toNat = a + len := by omega
  have h4 : (a : Int).toNat = a := by omega
  simp only [h1, h2, h3, h4, if_false]
  rw [List.drop_take]
  by_cases h : a ≤ l.length
  · rw [Nat.min_eq_left h, List.take_eq_take_iff]
    simp only [List.length_drop]
    omega
  · have e1 : l.drop a = [] := List.drop_eq_nil_of_le (by omega)
    have e2 : l.drop (min a l.length) = [] := List.drop_eq_nil_of_le (by omega)
    simp [e1, e2]
end Contracts.V2000
