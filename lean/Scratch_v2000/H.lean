import Generated.V2000
open Py
set_option autoImplicit false
set_option linter.unusedSimpArgs false
set_option linter.unusedSectionVars false

namespace Contracts.V2000

/-! ### general facts about the insertion-ordered dict model -/
section DictLemmas
variable {κ ν : Type} [DecidableEq κ]

/-- the invariant of every real Python dict: keys are distinct -/
def WF (d : Dict κ ν) : Prop := d.keys.Nodup

theorem wf_empty : WF (Dict.empty : Dict κ ν) := by simp [WF, Dict.keys, Dict.empty]

@[simp] theorem get?_empty (k : κ) : (Dict.empty : Dict κ ν).get? k = none := rfl

theorem lookup_eq_none_iff_not_mem_keys (l : List (κ × ν)) (k : κ) :
    l.lookup k = none ↔ k ∉ l.map Prod.fst := by
  induction l with
  | nil => simp
  | cons p l ih =>
    obtain ⟨a, b⟩ := p
    by_cases h : k = a
    · subst h; simp [List.lookup_cons]
    · have : (k == a) = false := by simpa using h
      simp [List.lookup_cons, this, ih, h]

theorem contains_iff_mem_keys (d : Dict κ ν) (k : κ) : d.contains k = true ↔ k ∈ d.keys := by
  unfold Dict.contains Dict.get? Dict.keys
  rw [← not_iff_not, Bool.not_eq_true, Option.isSome_eq_false_iff, Option.isNone_iff_eq_none]
  exact lookup_eq_none_iff_not_mem_keys _ _

theorem contains_eq_isSome (d : Dict κ ν) (k : κ) : d.contains k = (d.get? k).isSome := rfl

theorem lookup_map_set (l : List (κ × ν)) (k k' : κ) (v : ν) :
    (l.map (fun p => if p.1 = k then (k, v) else p)).lookup k' =
      if k' = k then (l.lookup k).map (fun _ => v) else l.lookup k' := by
  induction l with
  | nil => simp
  | cons p l ih =>
    obtain ⟨a, b⟩ := p
    by_cases hk : k' = k
    · subst hk
      by_cases ha : a = k'
      · subst ha; simp [List.lookup_cons]
      · have : (k' == a) = false := by simpa using (Ne.symm ha)
        simp only [List.map_cons, ha, if_false, List.lookup_cons, this]
        simpa using ih
    · by_cases ha : a = k
      · subst ha
        have : (k' == a) = false := by simpa using hk
        simp only [List.map_cons, if_true, List.lookup_cons, this]
        simpa [hk] using ih
      · simp only [List.map_cons, ha, if_false, List.lookup_cons]
        cases h : (k' == a)
        · simpa [hk] using ih
        · simp [hk]

theorem get?_set (d : Dict κ ν) (k k' : κ) (v : ν) :
    (d.set k v).get? k' = if k' = k then some v else d.get? k' := by
  unfold Dict.set
  by_cases hc : d.contains k = true
  · rw [if_pos hc]
    show List.lookup k' (d.items.map _) = _
    rw [lookup_map_set]
    by_cases hk : k' = k
    · subst hk
      rw [contains_eq_isSome, Option.isSome_iff_exists] at hc
      obtain ⟨x, hx⟩ := hc
      simp [Dict.get?] at hx
      simp [hx]
    · simp [hk, Dict.get?]
  · rw [if_neg hc]
    show List.lookup k' (d.items ++ [(k, v)]) = _
    rw [List.lookup_append]
    by_cases hk : k' = k
    · subst hk
      have hn : List.lookup k' d.items = none := by
        rw [contains_eq_isSome, Bool.not_eq_true, Option.isSome_eq_false_iff, Option.isNone_iff_eq_none] at hc
        exact hc
      simp [hn, List.lookup_cons]
    · have : (k' == k) = false := by simpa using hk
      simp [hk, Dict.get?, List.lookup_cons, this]

theorem keys_set (d : Dict κ ν) (k : κ) (v : ν) :
    (d.set k v).keys = if d.contains k then d.keys else d.keys ++ [k] := by
  unfold Dict.set
  by_cases hc : d.contains k = true
  · simp only [hc, if_true, Dict.keys, List.map_map]
    apply List.map_congr_left
    intro p _
    by_cases h : p.1 = k <;> simp [h]
  · simp [hc, Dict.keys]

theorem wf_set (d : Dict κ ν) (k : κ) (v : ν) (h : WF d) : WF (d.set k v) := by
  unfold WF at *
  rw [keys_set]
  by_cases hc : d.contains k = true
  · simpa [hc] using h
  · simp only [hc]
    have : k ∉ d.keys := by rwa [← contains_iff_mem_keys]
    simp [List.nodup_append, h, this]
    intro a ha hak; exact this (hak ▸ ha)

theorem contains_set (d : Dict κ ν) (k k' : κ) (v : ν) :
    (d.set k v).contains k' = (decide (k' = k) || d.contains k') := by
  rw [contains_eq_isSome, get?_set, contains_eq_isSome]
  by_cases h : k' = k <;> simp [h]

theorem get?_erase (d : Dict κ ν) (k k' : κ) :
    (d.erase k).get? k' = if k' = k then none else d.get? k' := by
  unfold Dict.erase Dict.get?
  simp only
  induction d.items with
  | nil => simp
  | cons p l ih =>
    obtain ⟨a, b⟩ := p
    by_cases ha : a = k
    · subst ha
      simp only [List.filter_cons, ne_eq, not_true_eq_false, decide_false, Bool.false_eq_true, if_false, ih]
      by_cases hk : k' = a
      · simp [hk]
      · have : (k' == a) = false := by simpa using hk
        simp [hk, List.lookup_cons, this]
    · simp only [List.filter_cons, ne_eq, ha, not_false_eq_true, decide_true, if_true, List.lookup_cons, ih]
      by_cases hk : k' = k
      · subst hk
        have : (k' == a) = false := by simpa using (Ne.symm ha)
        simp [this]
      · simp [hk]

theorem keys_erase (d : Dict κ ν) (k : κ) : (d.erase k).keys = d.keys.filter (· ≠ k) := by
  unfold Dict.erase Dict.keys
  simp only [List.filter_map]
  rfl

theorem wf_erase (d : Dict κ ν) (k : κ) (h : WF d) : WF (d.erase k) := by
  unfold WF at *; rw [keys_erase]; exact h.filter _

/-- `d.update(e)` / `d |= e` for a well-formed `e`: entries of `e` win -/
theorem get?_updatePairs (l : List (κ × ν)) (hl : (l.map Prod.fst).Nodup) (d : Dict κ ν) (k : κ) :
    (d.updatePairs l).get? k = (l.lookup k).or (d.get? k) := by
  induction l generalizing d with
  | nil => simp [Dict.updatePairs]
  | cons p l ih =>
    obtain ⟨a, b⟩ := p
    simp only [List.map_cons, List.nodup_cons] at hl
    show ((d.set a b).updatePairs l).get? k = _
    rw [ih hl.2, get?_set]
    by_cases hk : k = a
    · subst hk
      have : l.lookup k = none := (lookup_eq_none_iff_not_mem_keys _ _).2 hl.1
      simp [this, List.lookup_cons]
    · have : (k == a) = false := by simpa using hk
      simp [hk, List.lookup_cons, this]

theorem wf_updatePairs (l : List (κ × ν)) (d : Dict κ ν) (h : WF d) : WF (d.updatePairs l) := by
  induction l generalizing d with
  | nil => exact h
  | cons p l ih => exact ih _ (wf_set _ _ _ h)

theorem keys_updatePairs_of_subset (l : List (κ × ν)) (d : Dict κ ν) (h : ∀ p ∈ l, d.contains p.1 = true) :
    (d.updatePairs l).keys = d.keys := by
  induction l generalizing d with
  | nil => rfl
  | cons p l ih =>
    show ((d.set p.1 p.2).updatePairs l).keys = _
    rw [ih]
    · rw [keys_set, h p (by simp)]; rfl
    · intro q hq; rw [contains_set, h q (by simp [hq])]; simp

theorem get?_update (d e : Dict κ ν) (he : WF e) (k : κ) :
    (d.update e).get? k = (e.get? k).or (d.get? k) := get?_updatePairs e.items he d k

theorem get?_ofPairs (l : List (κ × ν)) (hl : (l.map Prod.fst).Nodup) (k : κ) :
    (Dict.ofPairs l).get? k = l.lookup k := by
  have := get?_updatePairs l hl (Dict.empty : Dict κ ν) k
  simp only [get?_empty, Option.or_none] at this
  exact this

theorem wf_ofPairs (l : List (κ × ν)) : WF (Dict.ofPairs l) := wf_updatePairs l _ wf_empty

theorem lookup_filter (l : List (κ × ν)) (hl : (l.map Prod.fst).Nodup) (q : κ × ν → Bool) (k : κ) :
    (l.filter q).lookup k = (l.lookup k).filter (fun v => q (k, v)) := by
  induction l with
  | nil => simp
  | cons p l ih =>
    obtain ⟨a, b⟩ := p
    simp only [List.map_cons, List.nodup_cons] at hl
    by_cases hk : k = a
    · subst hk
      have hn : l.lookup k = none := (lookup_eq_none_iff_not_mem_keys _ _).2 hl.1
      cases hq : q (k, b)
      · simp [List.filter_cons, hq, ih hl.2, hn, List.lookup_cons, Option.filter]
      · simp [List.filter_cons, hq, List.lookup_cons, Option.filter]
    · have : (k == a) = false := by simpa using hk
      cases hq : q (a, b)
      · simp [List.filter_cons, hq, ih hl.2, List.lookup_cons, this]
      · simp [List.filter_cons, hq, ih hl.2, List.lookup_cons, this]

end DictLemmas

open Tucan.molfile_v2000_reader

/-! ### item 3: the three dictionary helpers -/

/-- one step of `_merge_tuples_into_additional_attributes` -/
def mergeStep (key : String) (d : Dict Int Attrs) (t : Int × Int) : Dict Int Attrs :=
  d.set t.1 (((d.get? t.1).getD Dict.empty).set key (Val.int t.2))

/-- functional model of `_merge_tuples_into_additional_attributes` -/
def mergeTuples (key : String) (tuples : List (Int × Int)) (add : Dict Int Attrs) : Dict Int Attrs :=
  tuples.foldl (mergeStep key) add

theorem getItem_dict_int (d : Dict Int Attrs) (k : Int) :
    (getItem d k : M Attrs) = (match d.get? k with | some v => Except.ok v | none => Except.error Err.key) := by
  simp only [getItem, toKey, id_eq]
  cases d.get? k <;> rfl

/-- a `for` loop whose body never breaks and never raises is a left fold -/
theorem forIn_yield_eq_foldl {α σ : Type} (l : List α) (body : α → σ → M (ForInStep σ)) (g : σ → α → σ)
    (h : ∀ x ∈ l, ∀ r, body x r = .ok (.yield (g r x))) (init : σ) :
    forIn l init body = (.ok (l.foldl g init) : M σ) := by
  induction l generalizing init with
  | nil => rfl
  | cons x l ih =>
    rw [List.forIn_cons, h x (by simp)]
    simp only [Py.ok_bind, List.foldl_cons]
    exact ih (fun y hy => h y (by simp [hy])) _

theorem _merge_tuples_into_additional_attributes_eq (env : DepEnv) (tuples : List (Int × Int)) (key : String)
    (add : Dict Int Attrs) :
    _merge_tuples_into_additional_attributes env tuples key add = .ok (mergeTuples key tuples add) := by
  unfold _merge_tuples_into_additional_attributes
  simp only [pyIter_list, Py.pure_eq_ok]
  rw [forIn_yield_eq_foldl (g := mergeStep key)]
  · rfl
  · intro x _ r
    unfold mergeStep
    simp only [pyContains_dict, contains_eq_isSome, getItem_dict_int]
    cases h : r.get? x.1 with
    | none => simp [setItem_dict]; rfl
    | some a => simp [setItem_dict, setItem_attrs]; rfl

theorem map_set_of_not_mem {κ ν : Type} [DecidableEq κ] (l : List (κ × ν)) (a : κ) (v : ν)
    (h : a ∉ l.map Prod.fst) : l.map (fun p => if p.1 = a then (a, v) else p) = l := by
  induction l with
  | nil => rfl
  | cons p l ih =>
    simp only [List.map_cons, List.mem_cons, not_or] at h
    simp only [List.map_cons, ih h.2]
    rw [if_neg (fun e => h.1 e.symm)]

theorem set_mid {κ ν : Type} [DecidableEq κ] (pre rest : List (κ × ν)) (a : κ) (b v : ν)
    (h1 : a ∉ pre.map Prod.fst) (h2 : a ∉ rest.map Prod.fst) :
    (⟨pre ++ (a, b) :: rest⟩ : Dict κ ν).set a v = ⟨pre ++ (a, v) :: rest⟩ := by
  have hc : (⟨pre ++ (a, b) :: rest⟩ : Dict κ ν).contains a = true := by
    rw [contains_iff_mem_keys]; simp [Dict.keys]
  unfold Dict.set
  rw [if_pos hc]
  simp only [List.map_append, List.map_cons, if_true, map_set_of_not_mem _ _ _ h1, map_set_of_not_mem _ _ _ h2]

/-- a loop over the items of a dict that rebinds (some of) the values one key at a time -/
theorem forIn_items_set {κ ν : Type} [DecidableEq κ] (items : List (κ × ν))
    (body : κ × ν → Dict κ ν → M (ForInStep (Dict κ ν))) (c : κ × ν → Bool) (g : κ × ν → ν)
    (h : ∀ p ∈ items, ∀ r, body p r = .ok (.yield (if c p then r.set p.1 (g p) else r)))
    (pre : List (κ × ν)) (hnd : ((pre ++ items).map Prod.fst).Nodup) :
    forIn items (⟨pre ++ items⟩ : Dict κ ν) body =
      (.ok ⟨pre ++ items.map (fun p => if c p then (p.1, g p) else p)⟩ : M _) := by
  induction items generalizing pre with
  | nil => rfl
  | cons p items ih =>
    obtain ⟨a, b⟩ := p
    rw [List.forIn_cons, h (a, b) (by simp)]
    simp only [Py.ok_bind]
    have hnd' := hnd
    simp only [List.map_append, List.map_cons, List.nodup_append, List.nodup_cons, List.mem_cons] at hnd'
    have h1 : a ∉ pre.map Prod.fst := fun hm => (hnd'.2.2 a hm a (Or.inl rfl)) rfl
    have h2 : a ∉ items.map Prod.fst := hnd'.2.1.1
    have key : ∀ v : ν, ((pre ++ [(a, v)]) ++ items) = pre ++ (a, v) :: items := by simp
    cases hc : c (a, b)
    · simp only [Bool.false_eq_true, if_false, List.map_cons]
      have := ih (fun q hq => h q (by simp [hq])) (pre ++ [(a, b)]) (by rw [key]; exact hnd)
      rw [key] at this; rw [this]; simp [hc]
    · simp only [if_true, List.map_cons]
      rw [set_mid _ _ _ _ _ h1 h2]
      have := ih (fun q hq => h q (by simp [hq])) (pre ++ [(a, g (a, b))]) (by
        rw [key]; simpa [List.map_append] using hnd)
      rw [key] at this; rw [this]; simp [hc]

/-- spec of `_clear_atom_attribute`: the key is removed from every atom, nothing else changes -/
def clearAttr (key : String) (atoms : Dict Int Attrs) : Dict Int Attrs :=
  ⟨atoms.items.map (fun p => (p.1, p.2.erase key))⟩

theorem _clear_atom_attribute_ok (env : DepEnv) (key : String) (atoms : Dict Int Attrs) (hwf : WF atoms) :
    _clear_atom_attribute env key atoms = .ok (clearAttr key atoms) := by
  unfold _clear_atom_attribute
  simp only [Py.pure_eq_ok, setItem_dict, Py.ok_bind]
  have := forIn_items_set atoms.items
    (fun x r => (Except.ok (ForInStep.yield (r.set x.1 (Dict.pop? x.2 key).2)) : M _))
    (fun _ => true) (fun p => p.2.erase key) (fun p _ r => by simp [Dict.pop?]) [] (by simpa [WF, Dict.keys] using hwf)
  simp only [List.nil_append] at this
  rw [this]
  simp [clearAttr]

/-- the non-zero entries of a property dict ("0 means not set") -/
def nonzero (a : Attrs) : List (String × Val) := a.items.filter (fun p => decide (p.2 ≠ Val.int 0))

/-- what `_merge_atom_attributes_and_additional_attributes` does to one atom -/
def mergeAtom (add : Dict Int Attrs) (p : Int × Attrs) : Attrs :=
  match add.get? p.1 with
  | some extra => p.2.update (Dict.ofPairs (nonzero extra))
  | none => p.2

def mergeAdd (atoms add : Dict Int Attrs) : Dict Int Attrs :=
  ⟨atoms.items.map (fun p => (p.1, mergeAtom add p))⟩

theorem filterMap_nonzero (l : List (String × Val)) :
    l.filterMap (fun x => if pyNe x.2 (0 : Int) = true then some (x.1, x.2) else none) =
      l.filter (fun p => decide (p.2 ≠ Val.int 0)) := by
  induction l with
  | nil => rfl
  | cons p l ih =>
    have : pyNe p.2 (0 : Int) = decide (p.2 ≠ Val.int 0) := by
      simp [pyNe, PyCmp.eq]
    simp only [List.filterMap_cons, List.filter_cons, this, ih]
    by_cases h : p.2 = Val.int 0
    · simp [h]
    · simp [h]

theorem _merge_atom_attributes_and_additional_attributes_eq (env : DepEnv) (atoms add : Dict Int Attrs)
    (hwf : WF atoms) :
    _merge_atom_attributes_and_additional_attributes env atoms add = .ok (mergeAdd atoms add) := by
  unfold _merge_atom_attributes_and_additional_attributes
  simp only [Py.pure_eq_ok, setItem_dict, Py.ok_bind, pyContains_dict]
  have := forIn_items_set atoms.items
    (fun x r => if add.contains x.1 = true then do
              let __do_lift ← getItem add x.1
              let __do_lift ←
                listComp __do_lift.items fun x =>
                    if pyNe x.2 (0 : Int) = true then Except.ok (some (x.1, x.2)) else Except.ok none
              Except.ok (ForInStep.yield (r.set x.1 (Dict.update x.2 (Dict.ofPairs __do_lift))))
            else (Except.ok (ForInStep.yield r) : M _))
    (fun p => add.contains p.1) (mergeAtom add) (fun p _ r => by
      cases h : add.get? p.1 with
      | none =>
        have hc : add.contains p.1 = false := by simp [Dict.contains, h]
        simp [hc]
      | some extra =>
        have hc : add.contains p.1 = true := by simp [Dict.contains, h]
        simp only [hc, if_true, getItem_dict_int, h, Py.ok_bind, mergeAtom]
        rw [listComp_ok _ _ (fun x => if pyNe x.2 (0 : Int) = true then some (x.1, x.2) else none)
          (fun x _ => by split <;> rfl)]
        simp only [Py.ok_bind, filterMap_nonzero]
        rfl)
    [] (by simpa [WF, Dict.keys] using hwf)
  simp only [List.nil_append] at this
  rw [this]
  simp only [Py.ok_bind, mergeAdd]
  congr 2
  apply List.map_congr_left
  intro p _
  cases h : add.get? p.1 with
  | none =>
    have hc : add.contains p.1 = false := by simp [Dict.contains, h]
    simp [hc, mergeAtom, h]
  | some extra =>
    have hc : add.contains p.1 = true := by simp [Dict.contains, h]
    simp [hc]

/-! #### lookup-level description of the three helpers -/

/-- value stored under key `k` for atom `a` in a two-level dict -/
def dget (d : Dict Int Attrs) (a : Int) (k : String) : Option Val := (d.get? a).bind (·.get? k)

/-- every inner dict is a real dict -/
def InnerWF (d : Dict Int Attrs) : Prop := ∀ a e, d.get? a = some e → WF e

theorem innerWF_empty : InnerWF (Dict.empty : Dict Int Attrs) := by
  intro a e h; simp at h

/-- the last value given for atom `a` in a list of (atom, value) entries -/
def lastWins (es : List (Int × Int)) (a : Int) : Option Int :=
  ((es.filter (fun e => e.1 = a)).getLast?).map (·.2)

theorem lastWins_append (es₁ es₂ : List (Int × Int)) (a : Int) :
    lastWins (es₁ ++ es₂) a = (lastWins es₂ a).or (lastWins es₁ a) := by
  unfold lastWins
  rw [List.filter_append, List.getLast?_append]
  cases (es₂.filter (fun e => e.1 = a)).getLast? <;> simp

theorem lastWins_nil (a : Int) : lastWins [] a = none := rfl

theorem lastWins_singleton (t : Int × Int) (a : Int) :
    lastWins [t] a = if t.1 = a then some t.2 else none := by
  unfold lastWins
  by_cases h : t.1 = a <;> simp [List.filter_cons, h]

theorem dget_mergeStep (key : String) (d : Dict Int Attrs) (t : Int × Int) (a : Int) (k : String) :
    dget (mergeStep key d t) a k = if a = t.1 ∧ k = key then some (Val.int t.2) else dget d a k := by
  unfold dget mergeStep
  rw [get?_set]
  by_cases ha : a = t.1
  · subst ha
    simp only [if_true, Option.bind_some, get?_set, true_and]
    by_cases hk : k = key
    · simp [hk]
    · simp only [hk, if_false]
      cases d.get? t.1 <;> simp
  · simp [ha]

theorem innerWF_mergeStep (key : String) (d : Dict Int Attrs) (t : Int × Int) (h : InnerWF d) :
    InnerWF (mergeStep key d t) := by
  intro a e he
  unfold mergeStep at he
  rw [get?_set] at he
  by_cases ha : a = t.1
  · simp only [ha, if_true, Option.some.injEq] at he
    subst he
    apply wf_set
    cases hd : d.get? t.1 with
    | none => exact wf_empty
    | some e' => exact h _ _ hd
  · simp only [ha, if_false] at he
    exact h _ _ he

theorem mergeTuples_append (key : String) (es₁ es₂ : List (Int × Int)) (d : Dict Int Attrs) :
    mergeTuples key (es₁ ++ es₂) d = mergeTuples key es₂ (mergeTuples key es₁ d) := by
  simp [mergeTuples, List.foldl_append]

theorem innerWF_mergeTuples (key : String) (es : List (Int × Int)) (d : Dict Int Attrs) (h : InnerWF d) :
    InnerWF (mergeTuples key es d) := by
  induction es generalizing d with
  | nil => exact h
  | cons t es ih => exact ih _ (innerWF_mergeStep key d t h)

/-- `_merge_tuples_into_additional_attributes`: under `key`, the last entry for an atom wins; other keys
and other atoms are untouched -/
theorem dget_mergeTuples (key : String) (es : List (Int × Int)) (d : Dict Int Attrs) (a : Int) (k : String) :
    dget (mergeTuples key es d) a k =
      if k = key then ((lastWins es a).map Val.int).or (dget d a k) else dget d a k := by
  induction es using List.reverseRecOn with
  | nil => simp [mergeTuples, lastWins_nil]
  | append_singleton es t ih =>
    rw [mergeTuples_append]
    show dget (mergeStep key (mergeTuples key es d) t) a k = _
    rw [dget_mergeStep, ih, lastWins_append, lastWins_singleton]
    by_cases hk : k = key
    · by_cases ha : a = t.1
      · subst ha; simp [hk]
      · have : ¬ t.1 = a := fun e => ha e.symm
        simp [hk, ha, this]
    · simp [hk]

theorem lookup_map_snd {κ ν : Type} [DecidableEq κ] (l : List (κ × ν)) (f : κ × ν → ν) (a : κ) :
    (l.map (fun p => (p.1, f p))).lookup a = (l.lookup a).map (fun v => f (a, v)) := by
  induction l with
  | nil => rfl
  | cons p l ih =>
    obtain ⟨x, y⟩ := p
    by_cases h : a = x
    · subst h; simp [List.lookup_cons]
    · have : (a == x) = false := by simpa using h
      simp [List.lookup_cons, this, ih]

theorem nodup_keys_nonzero (e : Attrs) (h : WF e) : ((nonzero e).map Prod.fst).Nodup :=
  List.Nodup.sublist (List.Sublist.map _ List.filter_sublist) h

/-- `_merge_atom_attributes_and_additional_attributes` for one atom: zero values are dropped,
non-zero values override -/
theorem mergeAtom_get? (add : Dict Int Attrs) (hadd : InnerWF add) (a : Int) (old : Attrs) (k : String) :
    (mergeAtom add (a, old)).get? k =
      match dget add a k with
      | some v => if v = Val.int 0 then old.get? k else some v
      | none => old.get? k := by
  unfold mergeAtom dget
  cases h : add.get? a with
  | none => simp
  | some extra =>
    have hw := hadd _ _ h
    simp only [Option.bind_some]
    rw [get?_update _ _ (wf_ofPairs _), get?_ofPairs _ (nodup_keys_nonzero _ hw)]
    unfold nonzero
    rw [lookup_filter _ hw]
    show ((extra.get? k).filter _).or _ = _
    cases extra.get? k with
    | none => simp
    | some v => by_cases hv : v = Val.int 0 <;> simp [Option.filter, hv]

theorem mergeAtom_wf (add : Dict Int Attrs) (p : Int × Attrs) (h : WF p.2) : WF (mergeAtom add p) := by
  unfold mergeAtom
  cases add.get? p.1 with
  | none => exact h
  | some extra => exact wf_updatePairs _ _ h

theorem mergeAdd_keys (atoms add : Dict Int Attrs) : (mergeAdd atoms add).keys = atoms.keys := by
  simp [mergeAdd, Dict.keys, List.map_map, Function.comp_def]

theorem mergeAdd_get? (atoms add : Dict Int Attrs) (a : Int) :
    (mergeAdd atoms add).get? a = (atoms.get? a).map (fun old => mergeAtom add (a, old)) := by
  unfold mergeAdd Dict.get?
  exact lookup_map_snd _ _ _

theorem clearAttr_keys (key : String) (atoms : Dict Int Attrs) : (clearAttr key atoms).keys = atoms.keys := by
  simp [clearAttr, Dict.keys, List.map_map, Function.comp_def]

theorem clearAttr_get? (key : String) (atoms : Dict Int Attrs) (a : Int) :
    (clearAttr key atoms).get? a = (atoms.get? a).map (fun old => old.erase key) := by
  unfold clearAttr Dict.get?
  exact lookup_map_snd _ (fun p : Int × Attrs => p.2.erase key) _

theorem clearAttr_wf (key : String) (atoms : Dict Int Attrs) (h : WF atoms) : WF (clearAttr key atoms) := by
  unfold WF at *; rw [clearAttr_keys]; exact h

end Contracts.V2000
