import Contracts.V2000
open Py
set_option autoImplicit false
set_option linter.unusedSimpArgs false
namespace Contracts.V2000
open Tucan.molfile_v2000_reader

/-! ### item 4, stated on the text of the property block -/

/-- **item 4 (accepting path)**: if the property lines up to `M  END` read as `pl`, the block succeeds;
the atoms and their order are unchanged and every attribute of every atom is as `specGet` says -/
theorem _parse_attribute_block_ok (env : DepEnv) (lines : List Str) (atoms : Dict Int Attrs)
    (pl : List (Kind × List (Int × Int))) (hwf : WF atoms) (hpl : propLines atoms lines = .ok pl) :
    ∃ r, _parse_attribute_block env lines atoms = .ok r ∧ r.keys = atoms.keys ∧
      ∀ a old, atoms.get? a = some old →
        ∃ new, r.get? a = some new ∧ (WF old → WF new) ∧ ∀ k, new.get? k = specGet pl a old k := by
  refine ⟨applyProps pl atoms, ?_, applyProps_keys pl atoms, fun a old h => applyProps_get? pl atoms a old h⟩
  rw [_parse_attribute_block_eq env lines atoms hwf, hpl]; rfl

/-- **item 4 (rejecting paths)**: a missing `M  END`, an unknown atom number or a malformed number field -/
theorem _parse_attribute_block_reject (env : DepEnv) (lines : List Str) (atoms : Dict Int Attrs) (e : Err)
    (hwf : WF atoms) (hpl : propLines atoms lines = .error e) :
    _parse_attribute_block env lines atoms = .error e := by
  rw [_parse_attribute_block_eq env lines atoms hwf, hpl]; rfl

/-- a line of the property block as a writer produces it -/
inductive Item where
  | prop (K : Kind) (es : List (Nat × Int))
  | other (s : Str)

def Item.render : Item → Str
  | .prop K es => renderProp K.tag es
  | .other s => s

/-- what the line says -/
def Item.parsed : Item → Option (Kind × List (Int × Int))
  | .prop K es => some (K, entryVals es)
  | .other _ => none

/-- legal lines: the numbers fit their columns and the atom numbers denote atoms; other lines are neither
CHG/RAD/ISO lines nor `M  END` (e.g. `M  STY…`, `G  …`, `V  …`, `A  …`) -/
def Item.Legal (atoms : Dict Int Attrs) : Item → Prop
  | .prop _ es => es.length ≤ 999 ∧ (∀ e ∈ es, EntryFits e) ∧ ∀ e ∈ es, atoms.contains ((e.1 : Int) - 1) = true
  | .other s => lineKind s = none ∧ s ≠ endLine

theorem lineKind_renderProp (K : Kind) (es : List (Nat × Int)) : lineKind (renderProp K.tag es) = some K := by
  cases K <;> simp [lineKind, renderProp, Kind.tag, startswith, List.isPrefixOf]

theorem tag_length (K : Kind) : K.tag.length = 6 := by cases K <;> rfl

theorem scanProps_cons (atoms : Dict Int Attrs) (l : Str) (ls : List Str) :
    scanProps atoms (l :: ls) = (match lineKind l with
      | some K => do
        let es ← propEntries atoms l
        let r ← scanProps atoms ls
        pure ((K, es) :: r.1, r.2)
      | none => if l = endLine then pure ([], true) else scanProps atoms ls) := by
  rw [scanProps]
  cases lineKind l <;> rfl

theorem scanProps_render (atoms : Dict Int Attrs) (items : List Item) (h : ∀ it ∈ items, it.Legal atoms)
    (rest : List Str) :
    scanProps atoms (items.map Item.render ++ rest) = (do
      let r ← scanProps atoms rest
      pure (items.filterMap Item.parsed ++ r.1, r.2)) := by
  induction items with
  | nil => simp; cases scanProps atoms rest <;> rfl
  | cons it items ih =>
    have hit := h it (by simp)
    have ih' := ih (fun x hx => h x (by simp [hx]))
    cases it with
    | prop K es =>
      obtain ⟨h1, h2, h3⟩ := hit
      simp only [List.map_cons, List.cons_append, Item.render]
      rw [scanProps_cons, lineKind_renderProp]
      simp only [propEntries_renderProp atoms K.tag (tag_length K) es h1 h2 h3, Py.ok_bind, ih']
      cases scanProps atoms rest with
      | error e => rfl
      | ok r => simp [Item.parsed, List.filterMap_cons]
    | other s =>
      obtain ⟨h1, h2⟩ := hit
      simp only [List.map_cons, List.cons_append, Item.render]
      rw [scanProps_cons, h1]
      simp only [h2, if_false, ih']
      cases scanProps atoms rest with
      | error e => rfl
      | ok r => simp [Item.parsed, List.filterMap_cons]

/-- legal lines followed by `M  END` (and anything after it) read as what they say -/
theorem propLines_render (atoms : Dict Int Attrs) (items : List Item) (h : ∀ it ∈ items, it.Legal atoms)
    (post : List Str) :
    propLines atoms (items.map Item.render ++ endLine :: post) = .ok (items.filterMap Item.parsed) := by
  unfold propLines
  rw [scanProps_render atoms items h]
  have : scanProps atoms (endLine :: post) = .ok ([], true) := by
    rw [scanProps_cons, lineKind_endLine]; simp
  simp [this]

/-- without `M  END` the block is rejected -/
theorem propLines_render_noEnd (atoms : Dict Int Attrs) (items : List Item) (h : ∀ it ∈ items, it.Legal atoms) :
    propLines atoms (items.map Item.render) = .error parserException := by
  unfold propLines
  have := scanProps_render atoms items h []
  rw [List.append_nil] at this
  rw [this]
  simp [scanProps]

/-- an unknown atom number in a property line before `M  END` is rejected -/
theorem propLines_render_badAtom (atoms : Dict Int Attrs) (items : List Item) (h : ∀ it ∈ items, it.Legal atoms)
    (K : Kind) (es : List (Nat × Int)) (hlen : es.length ≤ 999) (hfit : ∀ e ∈ es, EntryFits e)
    (hbad : ∃ e ∈ es, atoms.contains ((e.1 : Int) - 1) = false) (post : List Str) :
    propLines atoms (items.map Item.render ++ renderProp K.tag es :: post) = .error parserException := by
  unfold propLines
  rw [scanProps_render atoms items h]
  have : scanProps atoms (renderProp K.tag es :: post) = .error parserException := by
    rw [scanProps_cons, lineKind_renderProp]
    simp only [propEntries_renderProp_reject atoms K.tag (tag_length K) es hlen hfit hbad]
    rfl
  simp [this]

/-- **C08, property block**: the composition of the above -/
theorem _parse_attribute_block_render_ok (env : DepEnv) (atoms : Dict Int Attrs) (hwf : WF atoms)
    (items : List Item) (h : ∀ it ∈ items, it.Legal atoms) (post : List Str) :
    ∃ r, _parse_attribute_block env (items.map Item.render ++ endLine :: post) atoms = .ok r ∧
      r.keys = atoms.keys ∧
      ∀ a old, atoms.get? a = some old →
        ∃ new, r.get? a = some new ∧ (WF old → WF new) ∧
          ∀ k, new.get? k = specGet (items.filterMap Item.parsed) a old k :=
  _parse_attribute_block_ok env _ atoms _ hwf (propLines_render atoms items h post)

theorem _parse_attribute_block_render_noEnd (env : DepEnv) (atoms : Dict Int Attrs) (hwf : WF atoms)
    (items : List Item) (h : ∀ it ∈ items, it.Legal atoms) :
    _parse_attribute_block env (items.map Item.render) atoms = .error (Err.custom "MolfileParserException") :=
  _parse_attribute_block_reject env _ atoms _ hwf (propLines_render_noEnd atoms items h)

theorem _parse_attribute_block_render_badAtom (env : DepEnv) (atoms : Dict Int Attrs) (hwf : WF atoms)
    (items : List Item) (h : ∀ it ∈ items, it.Legal atoms)
    (K : Kind) (es : List (Nat × Int)) (hlen : es.length ≤ 999) (hfit : ∀ e ∈ es, EntryFits e)
    (hbad : ∃ e ∈ es, atoms.contains ((e.1 : Int) - 1) = false) (post : List Str) :
    _parse_attribute_block env (items.map Item.render ++ renderProp K.tag es :: post) atoms =
      .error (Err.custom "MolfileParserException") :=
  _parse_attribute_block_reject env _ atoms _ hwf (propLines_render_badAtom atoms items h K es hlen hfit hbad post)

end Contracts.V2000
