/-
PyModel.Deps — the dependencies that are *not* modelled concretely: bliss (via igraph), floats,
`random`, the clock, set iteration order. They are fields of an environment record `DepEnv`;
their assumed contracts are stated as hypotheses (`DepEnv.Lawful…`) of the theorems that need
them (DESIGN.md §4: V3, V5, V6), never as axioms.
-/
import PyModel.Nx
set_option autoImplicit false

namespace Py

/-- `igraph.Graph.from_networkx(g)`: vertices in node iteration order, `_nx_name` = old label,
vertex attributes = node attributes, edges as pairs of vertex indices. -/
structure IGraph where
  names : List Int
  attrs : List Attrs
  edges : List (Int × Int)
  deriving Repr, DecidableEq

def IGraph.fromNetworkx (g : Graph) : IGraph :=
  let names := g.nodeList
  let idx := fun n => (Int.ofNat (names.idxOf n))
  ⟨names, g.node.values, g.edges.map (fun e => (idx e.1, idx e.2))⟩

/-- `ig.vs[name]`; a vertex lacking the attribute has `None` -/
def IGraph.vsAttr (ig : IGraph) (name : String) : List Val :=
  ig.attrs.map (fun a => (a.get? name).getD Val.none)
/-- `ig.vs["_nx_name"]` -/
def IGraph.vsNames (ig : IGraph) : List Int := ig.names

structure DepEnv where
  /-- iteration order of a freshly built `set` (hash-seed dependent): any permutation -/
  setOrder : {α : Type} → List α → List α
  /-- `ig.canonical_permutation(color=c)` (bliss) -/
  canonicalPermutation : IGraph → List Val → List Int
  /-- `ig.permute_vertices(p)`; which of old→new / new→old `p` means is igraph's business -/
  permuteVertices : IGraph → List Int → IGraph
  /-- `float(s)` -/
  parseFloat : Str → M Flt
  /-- `f"{x:.6f}"` for a float or int attribute value -/
  fmt6 : Val → Str
  /-- the `k`-th `random.shuffle` after `random.seed(seed)` -/
  shuffle : Val → Nat → List Int → List Int
  /-- `datetime.now().strftime('%m%d%y%H%M')` -/
  nowStamp : Str
  /-- `tucan.__version__` -/
  version : Str

/-- state of the global `random` generator: the seed and the number of shuffles drawn since -/
structure Rng where
  seed : Val
  count : Nat
  deriving Repr, DecidableEq
def Rng.ofSeed (v : Val) : Rng := ⟨v, 0⟩
def Rng.next (r : Rng) : Rng := { r with count := r.count + 1 }

/-- the only property of set iteration the proofs may use -/
def DepEnv.SetLawful (env : DepEnv) : Prop := ∀ {α : Type} (l : List α), (env.setOrder l).Perm l

end Py
