/-
PyModel.Deps — the dependencies that are *not* modelled concretely: bliss (via igraph), floats,
`random`, the clock, set iteration order. They are fields of an environment record `DepEnv`;
their assumed contracts are stated as hypotheses (`DepEnv.Lawful…`) of the theorems that need
them (DESIGN.md §4: V3, V5, V6), never as axioms.
-/
import PyModel.Nx
set_option autoImplicit false

namespace Py

/-- `igraph.Graph.from_networkx(g)`: vertices in node iteration order, `_nx_name` = old label,
vertex attributes = node attributes, edges as pairs of vertex indices. -/
structure IGraph where
  names : List Int
  attrs : List Attrs
  edges : List (Int × Int)
  deriving Repr, DecidableEq

def IGraph.fromNetworkx (g : Graph) : IGraph :=
  let names := g.nodeList
  let idx := fun n => (Int.ofNat (names.idxOf n))
  ⟨names, g.node.values, g.edges.map (fun e => (idx e.1, idx e.2))⟩

/-- `ig.vs[name]`; a vertex lacking the attribute has `None` -/
def IGraph.vsAttr (ig : IGraph) (name : String) : List Val :=
  ig.attrs.map (fun a => (a.get? name).getD Val.none)
/-- `ig.vs["_nx_name"]` -/
def IGraph.vsNames (ig : IGraph) : List Int := ig.names

/-- ANTLR parse tree (assumption V4): rule nodes and token leaves. A context handed to a listener
method also knows its parent rule node (`ctx.parentCtx`). -/
inductive PTree where
  | node (rule : String) (children : List PTree)
  | tok (text : Str)
  deriving Repr

structure PCtx where
  self : PTree
  parent : Option PTree := Option.none
  deriving Repr

namespace PTree
def rule : PTree → String
  | node r _ => r
  | tok _ => ""
def kids : PTree → List PTree
  | node _ c => c
  | tok _ => []
mutual
/-- `getText()`: concatenation of the token texts below the node -/
def text : PTree → Str
  | node _ c => textList c
  | tok t => t
def textList : List PTree → Str
  | [] => []
  | t :: ts => text t ++ textList ts
end
end PTree

namespace PCtx
/-- `ctx.children` (None for a rule node without children; the code checks `getChildCount` first) -/
def children (c : PCtx) : List PCtx := c.self.kids.map (fun k => ⟨k, some c.self⟩)
def getChildCount (c : PCtx) : Int := c.self.kids.length
def getChild (c : PCtx) (i : Int) : M PCtx :=
  match c.self.kids[i.toNat]? with
  | some k => if i < 0 then throw .index else pure ⟨k, some c.self⟩
  | Option.none => throw .index
def getText (c : PCtx) : Str := c.self.text
/-- `ctx.<rule>()` : the first child that is a `<rule>` node (`None` → AttributeError later; modelled as KeyError) -/
def childRule (c : PCtx) (r : String) : M PCtx :=
  match c.self.kids.find? (fun k => k.rule == r) with
  | some k => pure ⟨k, some c.self⟩
  | Option.none => throw .key
/-- `ctx.<rule>(i)` -/
def childRuleAt (c : PCtx) (r : String) (i : Int) : M PCtx :=
  match (c.self.kids.filter (fun k => k.rule == r))[i.toNat]? with
  | some k => if i < 0 then throw .index else pure ⟨k, some c.self⟩
  | Option.none => throw .key
/-- `ctx.parentCtx` -/
def parentCtx (c : PCtx) : M PCtx :=
  match c.parent with
  | some p => pure ⟨p, Option.none⟩
  | Option.none => throw .key
end PCtx

-- `ParseTreeWalker.walk(listener, tree)`: depth-first, document order; `enter` is the listener's
-- dispatch on the rule name (no `exit*` method is overridden by the code under contract).
mutual
def PTree.walk {σ : Type} (enter : σ → PCtx → M σ) (parent : Option PTree) (t : PTree) (st : σ) : M σ :=
  match t with
  | .tok _ => pure st
  | .node r cs => do
    let st ← enter st ⟨.node r cs, parent⟩
    PTree.walkList enter (some (.node r cs)) cs st
def PTree.walkList {σ : Type} (enter : σ → PCtx → M σ) (parent : Option PTree) (ts : List PTree) (st : σ) : M σ :=
  match ts with
  | [] => pure st
  | t :: rest => do
    let st ← PTree.walk enter parent t st
    PTree.walkList enter parent rest st
end

structure DepEnv where
  /-- iteration order of a freshly built `set` (hash-seed dependent): any permutation -/
  setOrder : {α : Type} → List α → List α
  /-- `ig.canonical_permutation(color=c)` (bliss) -/
  canonicalPermutation : IGraph → List Val → List Int
  /-- `ig.permute_vertices(p)`; which of old→new / new→old `p` means is igraph's business -/
  permuteVertices : IGraph → List Int → IGraph
  /-- `float(s)` -/
  parseFloat : Str → M Flt
  /-- `f"{x:.6f}"` for a float or int attribute value -/
  fmt6 : Val → Str
  /-- the `k`-th `random.shuffle` after `random.seed(seed)` -/
  shuffle : Val → Nat → List Int → List Int
  /-- `nx.kamada_kawai_layout(g, dim=2)` (only with `calc_coordinates=True`; outside every property) -/
  layout : Graph → Dict Int (List Val)
  /-- `datetime.now().strftime('%m%d%y%H%M')` -/
  nowStamp : Str
  /-- `tucan.__version__` -/
  version : Str

/-- state of the global `random` generator: the seed and the number of shuffles drawn since -/
structure Rng where
  seed : Val
  count : Nat
  deriving Repr, DecidableEq
def Rng.ofSeed (v : Val) : Rng := ⟨v, 0⟩
def Rng.next (r : Rng) : Rng := { r with count := r.count + 1 }

/-- the only property of set iteration the proofs may use -/
def DepEnv.SetLawful (env : DepEnv) : Prop := ∀ {α : Type} (l : List α), (env.setOrder l).Perm l

end Py
