/-
PyModel.Basic — executable model of the Python builtins used by the functions
extracted from /repo (see DESIGN.md §3). Code-independent: nothing in this file
mentions TUCAN. Everything is total and computable so that the extracted
definitions can be run by `lean --run` and compared with CPython (probe V1).
-/
import Mathlib.Data.List.Sort
import Mathlib.Data.List.Perm.Basic
import Mathlib.Data.List.Dedup
import Mathlib.Tactic
set_option autoImplicit false

namespace Py

/-- Python exception classes (messages and tracebacks are dropped). -/
inductive Err where
  | key | index | value | type_ | assertion | fuel | custom (cls : String)
  deriving Repr, DecidableEq

abbrev M := Except Err

@[simp] theorem ok_bind {α β} (a : α) (f : α → M β) : (Except.ok a >>= f) = f a := rfl
@[simp] theorem error_bind {α β} (e : Err) (f : α → M β) : ((Except.error e : M α) >>= f) = Except.error e := rfl
@[simp] theorem pure_eq_ok {α} (a : α) : (pure a : M α) = Except.ok a := rfl
@[simp] theorem throw_eq_error {α} (e : Err) : (throw e : M α) = Except.error e := rfl

/-- Python `str`: list of code points. -/
abbrev Str := List Char

-- `py!"abc"`: string literal as a `List Char` literal, expanded at elaboration time
open Lean in
macro:max "py!" s:str : term => do
  let cs := s.getString.toList
  let mut t ← `(([] : List Char))
  for c in cs.reverse do
    t ← `(List.cons $(Syntax.mkCharLit c) $t)
  return t

/-- A float is opaque: it is carried as the text it was parsed from / an integer it was
converted from; only `DepEnv.parseFloat` / `DepEnv.fmt6` look at it (DESIGN.md §3, §4 V5). -/
structure Flt where
  tok : Str
  deriving Repr, DecidableEq

/-- scalar attribute values -/
inductive Sc where
  | none | bool (b : Bool) | int (i : Int) | flt (f : Flt) | str (s : Str)
  deriving Repr, DecidableEq

/-- attribute values: scalars and tuples of scalars (the invariant code) -/
inductive Val where
  | sc (s : Sc) | tup (l : List Sc)
  deriving Repr, DecidableEq

namespace Val
@[match_pattern] abbrev none : Val := .sc .none
@[match_pattern] abbrev int (i : Int) : Val := .sc (.int i)
@[match_pattern] abbrev bool (b : Bool) : Val := .sc (.bool b)
@[match_pattern] abbrev str (s : Str) : Val := .sc (.str s)
@[match_pattern] abbrev flt (f : Flt) : Val := .sc (.flt f)
def toSc : Val → Sc
  | .sc s => s
  | .tup _ => .none
/-- `tuple(...)` of attribute values; items are scalars in every well-formed molecule -/
def mkTup (l : List Val) : Val := .tup (l.map toSc)
end Val

/-! ### ordering (`<` of Python, as a Bool) -/

class POrd (α : Type) where
  lt : α → α → Bool

/-- `a <= b` for total orders -/
abbrev POrd.le {α} [POrd α] (a b : α) : Bool := !POrd.lt b a

instance : POrd Int := ⟨fun a b => decide (a < b)⟩
instance : POrd Nat := ⟨fun a b => decide (a < b)⟩
instance : POrd Char := ⟨fun a b => decide (a.val < b.val)⟩
instance : POrd Bool := ⟨fun a b => !a && b⟩

def lexLt {α} (lt : α → α → Bool) : List α → List α → Bool
  | [], [] => false
  | [], _ :: _ => true
  | _ :: _, [] => false
  | a :: as, b :: bs => if lt a b then true else if lt b a then false else lexLt lt as bs

instance {α} [POrd α] : POrd (List α) := ⟨lexLt POrd.lt⟩
instance {α β} [POrd α] [POrd β] : POrd (α × β) :=
  ⟨fun a b => if POrd.lt a.1 b.1 then true else if POrd.lt b.1 a.1 then false else POrd.lt a.2 b.2⟩

def Sc.tag : Sc → Nat
  | .none => 0 | .bool _ => 1 | .int _ => 2 | .flt _ => 3 | .str _ => 4
/-- Same-shaped scalars compare as in Python. Comparing different shapes raises `TypeError`
in Python; the model orders them by shape instead (never exercised by well-formed molecules,
DESIGN.md §3). Floats are never compared by the code under contract; they are ordered by token. -/
def Sc.lt : Sc → Sc → Bool
  | .int a, .int b => decide (a < b)
  | .bool a, .bool b => POrd.lt a b
  | .str a, .str b => POrd.lt a b
  | .flt a, .flt b => POrd.lt a.tok b.tok
  | a, b => decide (a.tag < b.tag)
instance : POrd Sc := ⟨Sc.lt⟩
def Val.lt : Val → Val → Bool
  | .sc a, .sc b => Sc.lt a b
  | .tup a, .tup b => POrd.lt a b
  | .sc _, .tup _ => true
  | .tup _, .sc _ => false
instance : POrd Val := ⟨Val.lt⟩

/-- heterogeneous comparison, so that the extractor needs no type inference -/
class PyCmp (α β : Type) where
  lt : α → β → Bool
  gt : α → β → Bool
  eq : α → β → Bool
instance {α} [POrd α] [DecidableEq α] : PyCmp α α := ⟨POrd.lt, fun a b => POrd.lt b a, fun a b => decide (a = b)⟩
instance : PyCmp Val Int := ⟨fun a b => POrd.lt a (Val.int b), fun a b => POrd.lt (Val.int b) a, fun a b => decide (a = Val.int b)⟩
instance : PyCmp Int Val := ⟨fun a b => POrd.lt (Val.int a) b, fun a b => POrd.lt b (Val.int a), fun a b => decide (Val.int a = b)⟩
instance : PyCmp Val Str := ⟨fun a b => POrd.lt a (Val.str b), fun a b => POrd.lt (Val.str b) a, fun a b => decide (a = Val.str b)⟩
instance : PyCmp Str Val := ⟨fun a b => POrd.lt (Val.str a) b, fun a b => POrd.lt b (Val.str a), fun a b => decide (Val.str a = b)⟩
instance {α} [DecidableEq α] : PyCmp (Option α) (Option α) := ⟨fun _ _ => false, fun _ _ => false, fun a b => decide (a = b)⟩
def pyLt {α β} [PyCmp α β] (a : α) (b : β) : Bool := PyCmp.lt a b
def pyGt {α β} [PyCmp α β] (a : α) (b : β) : Bool := PyCmp.gt a b
def pyLe {α β} [PyCmp α β] (a : α) (b : β) : Bool := !PyCmp.gt a b
def pyGe {α β} [PyCmp α β] (a : α) (b : β) : Bool := !PyCmp.lt a b
def pyEq {α β} [PyCmp α β] (a : α) (b : β) : Bool := PyCmp.eq a b
def pyNe {α β} [PyCmp α β] (a : α) (b : β) : Bool := !PyCmp.eq a b

/-- `sorted(l)`: stable, uses only `<` -/
def sorted {α} [POrd α] (l : List α) : List α := l.mergeSort (fun a b => !POrd.lt b a)
/-- `sorted(l, reverse=True)`: stable for equal elements -/
def sortedRev {α} [POrd α] (l : List α) : List α := l.mergeSort (fun a b => !POrd.lt a b)
/-- `sorted(l, key=f)` -/
def sortedKey {α κ} [POrd κ] (f : α → κ) (l : List α) : List α := l.mergeSort (fun a b => !POrd.lt (f b) (f a))

/-! ### truthiness, conversion to attribute values -/

class Truthy (α : Type) where
  truthy : α → Bool
export Truthy (truthy)
instance : Truthy Bool := ⟨id⟩
instance : Truthy Int := ⟨fun i => decide (i ≠ 0)⟩
instance {α} : Truthy (List α) := ⟨fun l => !l.isEmpty⟩
instance {α} [Truthy α] : Truthy (Option α) := ⟨fun o => match o with | some a => truthy a | Option.none => false⟩
instance : Truthy Sc := ⟨fun v => match v with
  | .none => false | .bool b => b | .int i => decide (i ≠ 0) | .flt f => f.tok ≠ py!"0" | .str s => !s.isEmpty⟩
instance : Truthy Val := ⟨fun v => match v with | .sc s => truthy s | .tup l => !l.isEmpty⟩

class ToVal (α : Type) where
  toVal : α → Val
export ToVal (toVal)
instance : ToVal Val := ⟨id⟩
instance : ToVal Int := ⟨Val.int⟩
instance : ToVal Bool := ⟨Val.bool⟩
instance : ToVal Str := ⟨Val.str⟩
instance : ToVal Flt := ⟨Val.flt⟩
instance {α} [ToVal α] : ToVal (Option α) := ⟨fun o => match o with | some a => toVal a | Option.none => Val.none⟩

/-! ### dict: insertion-ordered association list -/

structure Dict (κ ν : Type) where
  items : List (κ × ν)
  deriving Repr, DecidableEq

namespace Dict
variable {κ ν : Type} [DecidableEq κ]
def empty : Dict κ ν := ⟨[]⟩
def get? (d : Dict κ ν) (k : κ) : Option ν := d.items.lookup k
def contains (d : Dict κ ν) (k : κ) : Bool := (d.get? k).isSome
/-- `d[k] = v`: an existing key keeps its position -/
def set (d : Dict κ ν) (k : κ) (v : ν) : Dict κ ν :=
  if d.contains k then ⟨d.items.map (fun p => if p.1 = k then (k, v) else p)⟩ else ⟨d.items ++ [(k, v)]⟩
def keys (d : Dict κ ν) : List κ := d.items.map Prod.fst
def values (d : Dict κ ν) : List ν := d.items.map Prod.snd
def ofPairs (l : List (κ × ν)) : Dict κ ν := l.foldl (fun d p => d.set p.1 p.2) empty
/-- `d.update(e)` / `d |= e` -/
def update (d e : Dict κ ν) : Dict κ ν := e.items.foldl (fun d p => d.set p.1 p.2) d
def updatePairs (d : Dict κ ν) (l : List (κ × ν)) : Dict κ ν := l.foldl (fun d p => d.set p.1 p.2) d
def erase (d : Dict κ ν) (k : κ) : Dict κ ν := ⟨d.items.filter (fun p => p.1 ≠ k)⟩
/-- `d.pop(k, None)` -/
def pop? (d : Dict κ ν) (k : κ) : Option ν × Dict κ ν := (d.get? k, d.erase k)
/-- `d.get(k, default)` -/
def getD (d : Dict κ ν) (k : κ) (dflt : ν) : ν := (d.get? k).getD dflt
def size (d : Dict κ ν) : Int := d.items.length
end Dict

instance {κ ν} : Truthy (Dict κ ν) := ⟨fun d => !d.items.isEmpty⟩
/-- comparing dicts raises `TypeError` in Python; it is only reached when sorting `(label, attrs)`
pairs with equal labels, which a graph never has. Modelled as "never smaller". -/
instance {κ ν} : POrd (Dict κ ν) := ⟨fun _ _ => false⟩

abbrev Attrs := Dict String Val

/-! ### subscripting -/

class GetItem (C : Type) (K : Type) (V : outParam Type) where
  getItem : C → K → M V
export GetItem (getItem)

def normIndex (i : Int) (n : Nat) : Int := if i < 0 then i + n else i

def listGet {α} (l : List α) (i : Int) : M α :=
  let j := normIndex i l.length
  if j < 0 then throw .index else
  match l[j.toNat]? with
  | some a => pure a
  | Option.none => throw .index

/-- a Python value of type `K` used as a key of a dict whose keys are modelled by `κ` -/
class ToKey (K : Type) (κ : Type) where
  toKey : K → κ
export ToKey (toKey)
instance : ToKey Int Int := ⟨id⟩
instance : ToKey String String := ⟨id⟩
instance : ToKey Str Str := ⟨id⟩
instance : ToKey Val Val := ⟨id⟩
instance : ToKey (Int × Int) (Int × Int) := ⟨id⟩
instance : ToKey (List Val) (List Val) := ⟨id⟩
instance : ToKey Int Val := ⟨Val.int⟩
instance : ToKey Str Val := ⟨Val.str⟩

instance {κ ν K} [DecidableEq κ] [ToKey K κ] : GetItem (Dict κ ν) K ν :=
  ⟨fun d k => match d.get? (toKey k) with | some v => pure v | Option.none => throw .key⟩
instance {α} : GetItem (List α) Int α := ⟨listGet⟩
instance {α} : GetItem (α × α) Int α := ⟨fun p i => listGet [p.1, p.2] i⟩

/-- slice `l[a:b]` with Python's clamping; `none` = omitted bound -/
def clampIndex (i : Option Int) (n : Nat) (dflt : Nat) : Nat :=
  match i with
  | Option.none => dflt
  | some i => if i < 0 then (i + n).toNat else min i.toNat n
def slice {α} (l : List α) (a b : Option Int) : List α :=
  let lo := clampIndex a l.length 0
  let hi := clampIndex b l.length l.length
  (l.take hi).drop lo

/-! ### list builtins -/

def range (n : Int) : List Int := (List.range n.toNat).map Int.ofNat
def range2 (a b : Int) : List Int := (List.range (b - a).toNat).map (fun i => a + Int.ofNat i)
def len {α} (l : List α) : Int := l.length
def zip {α β} (a : List α) (b : List β) : List (α × β) := List.zip a b
def enumerate {α} (l : List α) (start : Int := 0) : List (Int × α) :=
  (List.range l.length).map (fun i => start + Int.ofNat i) |>.zip l
def maxOf {α} [POrd α] : List α → M α
  | [] => throw .value
  | x :: xs => pure (xs.foldl (fun m y => if POrd.lt m y then y else m) x)
/-- `l.pop()` -/
def popLast {α} (l : List α) : M (α × List α) :=
  match l.getLast? with
  | some x => pure (x, l.dropLast)
  | Option.none => throw .index
/-- `deque.popleft()` -/
def popFirst {α} (l : List α) : M (α × List α) :=
  match l with
  | x :: xs => pure (x, xs)
  | [] => throw .index

/-- list comprehension `[e for x in xs if c]` with a monadic body -/
def listComp {α β} : List α → (α → M (Option β)) → M (List β)
  | [], _ => pure []
  | x :: xs, f => do
    let y ← f x
    let ys ← listComp xs f
    pure (match y with | some v => v :: ys | Option.none => ys)

theorem listComp_ok {α β} (xs : List α) (f : α → M (Option β)) (g : α → Option β)
    (h : ∀ x ∈ xs, f x = .ok (g x)) : listComp xs f = .ok (xs.filterMap g) := by
  induction xs with
  | nil => rfl
  | cons x xs ih =>
    have hx := h x (by simp)
    have hxs := ih (fun y hy => h y (by simp [hy]))
    simp only [listComp, hx, hxs, ok_bind, List.filterMap_cons]
    cases g x <;> rfl

/-- `set(xs)`: distinct elements; the iteration order is chosen by the oracle `DepEnv.setOrder`
that every theorem quantifies over (PYTHONHASHSEED half of C14). -/
structure PSet (α : Type) where
  elems : List α
def mkSet {α} [DecidableEq α] (xs : List α) : PSet α := ⟨xs.dedup⟩

/-- `collections.Counter(xs)`: counts in first-occurrence order -/
def counter {α} [DecidableEq α] (xs : List α) : Dict α Int :=
  xs.foldl (fun d x => d.set x (d.getD x 0 + 1)) Dict.empty

/-! ### str builtins -/

def pyStrInt (i : Int) : Str := (toString i).toList

class PyStr (α : Type) where
  pyStr : α → Str
export PyStr (pyStr)
instance : PyStr Int := ⟨pyStrInt⟩
instance : PyStr Str := ⟨id⟩
/-- `str()` of an attribute value as used in f-strings. Only ints and strs are printed by the
code under contract; other shapes are rendered as `?` (not reachable for well-formed molecules). -/
instance : PyStr Val := ⟨fun v => match v with
  | .sc (.int i) => pyStrInt i | .sc (.str s) => s | .sc (.bool true) => py!"True" | .sc (.bool false) => py!"False"
  | .sc .none => py!"None" | _ => py!"?"⟩

/-- an attribute value used where the code needs a `str` (an element symbol): identity on
strings; for other shapes Python would raise `TypeError`, the model gives `str(v)` -/
def Val.asStr (v : Val) : Str := pyStr v

def join (sep : Str) (l : List Str) : Str := sep.intercalate l

def startswith (s p : Str) : Bool := p.isPrefixOf s
def endswith (s p : Str) : Bool := p.isSuffixOf s

/-- `s.split(sep)` for a non-empty separator -/
def splitOnAux (sep : Str) (fuel : Nat) (s : Str) (cur : Str) : List Str :=
  match fuel with
  | 0 => [cur.reverse]
  | fuel + 1 =>
    match s with
    | [] => [cur.reverse]
    | c :: cs =>
      if sep.isPrefixOf s ∧ sep ≠ [] then cur.reverse :: splitOnAux sep fuel (s.drop sep.length) []
      else splitOnAux sep fuel cs (c :: cur)
def split (s sep : Str) : List Str := splitOnAux sep (s.length + 1) s []

/-- whitespace of `str.split()` / `str.rstrip()` / `int()` (ASCII subset plus the Unicode
line/paragraph separators that `splitlines` knows) -/
def isPySpace (c : Char) : Bool :=
  c = ' ' ∨ c = '\t' ∨ c = '\n' ∨ c = '\r' ∨ c = '\x0b' ∨ c = '\x0c' ∨ c = '\x1c' ∨ c = '\x1d' ∨ c = '\x1e' ∨ c = '\x1f' ∨ c = '\u0085' ∨ c = ' '

/-- `s.split()` (no argument): runs of whitespace separate, no empty strings -/
def splitWsAux : Str → Str → List Str
  | [], cur => if cur = [] then [] else [cur.reverse]
  | c :: cs, cur =>
    if isPySpace c then (if cur = [] then splitWsAux cs [] else cur.reverse :: splitWsAux cs [])
    else splitWsAux cs (c :: cur)
def splitWs (s : Str) : List Str := splitWsAux s []

def rstrip (s : Str) : Str := (s.reverse.dropWhile isPySpace).reverse
def stripChar (s : Str) (c : Char) : Str := ((s.dropWhile (· = c)).reverse.dropWhile (· = c)).reverse

/-- `str.splitlines()` line boundaries -/
def isLineBreak (c : Char) : Bool :=
  c = '\n' ∨ c = '\r' ∨ c = '\x0b' ∨ c = '\x0c' ∨ c = '\x1c' ∨ c = '\x1d' ∨ c = '\x1e' ∨ c = '\u0085' ∨ c = ' ' ∨ c = ' '
def splitlinesAux : Str → Str → List Str
  | [], cur => if cur = [] then [] else [cur.reverse]
  | '\r' :: '\n' :: cs, cur => cur.reverse :: splitlinesAux cs []
  | c :: cs, cur => if isLineBreak c then cur.reverse :: splitlinesAux cs [] else splitlinesAux cs (c :: cur)
def splitlines (s : Str) : List Str := splitlinesAux s []

def isInfixOf (p s : Str) : Bool := s.tails.any (fun t => p.isPrefixOf t)

def isAsciiDigit (c : Char) : Bool := '0' ≤ c ∧ c ≤ '9'
def digitsToNat (ds : Str) : Nat := ds.foldl (fun n c => 10 * n + (c.toNat - '0'.toNat)) 0

/-- CPython's default limit on int <-> str conversion -/
def intMaxStrDigits : Nat := 4300

/-- `int(s)` for ASCII input: optional surrounding whitespace, optional sign, digits with
optional single underscores between digits; anything else is `ValueError`, and so are more
than 4300 digits. Non-ASCII digits are outside the model. -/
def parseInt (s : Str) : M Int :=
  let t := rstrip (s.dropWhile isPySpace)
  let (neg, ds) := match t with
    | '-' :: r => (true, r)
    | '+' :: r => (false, r)
    | r => (false, r)
  let okUnderscores : Bool := ds.head? ≠ some '_' ∧ ds.getLast? ≠ some '_' ∧ isInfixOf (py!"__") ds = false
  let ds' := ds.filter (· ≠ '_')
  if ds' = [] ∨ ds'.all isAsciiDigit = false ∨ okUnderscores = false ∨ ds'.length > intMaxStrDigits then throw .value
  else pure (if neg then - (digitsToNat ds' : Int) else (digitsToNat ds' : Int))

/-- `s.replace(old, new)` for non-empty `old` -/
def replaceAllAux (old new : Str) (fuel : Nat) (s : Str) : Str :=
  match fuel with
  | 0 => s
  | fuel + 1 =>
    match s with
    | [] => []
    | c :: cs =>
      if old ≠ [] ∧ old.isPrefixOf s then new ++ replaceAllAux old new fuel (s.drop old.length)
      else c :: replaceAllAux old new fuel cs
def replaceAll (s old new : Str) : Str := replaceAllAux old new (s.length + 1) s

/-- `f"{s: <w}"`-style padding -/
def padRight (s : Str) (w : Nat) (fill : Char) : Str := s ++ List.replicate (w - s.length) fill
def padLeft (s : Str) (w : Nat) (fill : Char) : Str := List.replicate (w - s.length) fill ++ s

/-- the one regular expression used by the code: `re.compile(r"ENDPTS=\(.+\)").search(s)`.
Leftmost match; `.+` is greedy and does not cross a newline, so the match runs to the last `)` on
the line with at least one character between the parentheses. -/
def lastParenIdx (l : Str) : Option Nat :=
  let idxs := (List.range l.length).filter (fun i => l[i]? = some ')' ∧ i ≥ 1)
  idxs.getLast?
def searchEndptsAux (fuel : Nat) (s : Str) : Option Str :=
  match fuel with
  | 0 => Option.none
  | fuel + 1 =>
    match s with
    | [] => Option.none
    | _ :: cs =>
      if (py!"ENDPTS=(").isPrefixOf s then
        let line := (s.drop 8).takeWhile (· ≠ '\n')
        match lastParenIdx line with
        | some j => some (s.take (8 + j + 1))
        | Option.none => searchEndptsAux fuel cs
      else searchEndptsAux fuel cs
def searchEndpts (s : Str) : Option Str := searchEndptsAux (s.length + 1) s

/-- `sorted(xs, key=f)` where evaluating `f` may raise -/
def sortedByKeyM {α κ} [POrd κ] (xs : List α) (f : α → M κ) : M (List α) := do
  let ks ← xs.mapM f
  pure (((List.zip ks xs).mergeSort (fun a b => !POrd.lt b.1 a.1)).map Prod.snd)

/-- `x in xs` -/
def pyIn {α} [DecidableEq α] (a : α) (l : List α) : Bool := decide (a ∈ l)
/-- `sub in s` for strings -/
def strIn (sub s : Str) : Bool := isInfixOf sub s

def pyAssert (b : Bool) : M Unit := if b then pure () else throw .assertion

end Py
