/-
PyModel.Ops — overloaded Python operators as type classes, so that the extractor can translate
syntax-directed without type inference; Lean's elaborator picks the instance.
-/
import PyModel.Deps
set_option autoImplicit false

namespace Py

class PyAdd (α : Type) where
  pyAdd : α → α → α
export PyAdd (pyAdd)
instance : PyAdd Int := ⟨(· + ·)⟩
instance {α} : PyAdd (List α) := ⟨(· ++ ·)⟩
@[simp] theorem pyAdd_int (a b : Int) : pyAdd a b = a + b := rfl
@[simp] theorem pyAdd_list {α} (a b : List α) : pyAdd a b = a ++ b := rfl

/-- iteration order of `for x in c` -/
class PyIter (C : Type) (α : outParam Type) where
  pyIter : C → List α
export PyIter (pyIter)
instance {α} : PyIter (List α) α := ⟨id⟩
instance {κ ν} : PyIter (Dict κ ν) κ := ⟨fun d => d.items.map Prod.fst⟩
instance : PyIter Graph Int := ⟨Graph.nodeList⟩
instance {α} : PyIter (α × α) α := ⟨fun p => [p.1, p.2]⟩
@[simp] theorem pyIter_pair {α} (p : α × α) : pyIter p = [p.1, p.2] := rfl
@[simp] theorem pyIter_list {α} (l : List α) : pyIter l = l := rfl
@[simp] theorem pyIter_graph (g : Graph) : pyIter g = g.nodeList := rfl
@[simp] theorem pyIter_dict {κ ν} (d : Dict κ ν) : pyIter d = d.items.map Prod.fst := rfl

class PyLen (C : Type) where
  pyLen : C → Int
export PyLen (pyLen)
instance {α} : PyLen (List α) := ⟨fun l => l.length⟩
instance {κ ν} : PyLen (Dict κ ν) := ⟨fun d => d.items.length⟩
@[simp] theorem pyLen_list {α} (l : List α) : pyLen l = (l.length : Int) := rfl
@[simp] theorem pyLen_dict {κ ν} (d : Dict κ ν) : pyLen d = (d.items.length : Int) := rfl

/-- `k in c` -/
class PyContains (C : Type) (K : Type) where
  pyContains : K → C → Bool
export PyContains (pyContains)
instance {α} [DecidableEq α] : PyContains (List α) α := ⟨fun a l => decide (a ∈ l)⟩
instance {κ ν} [DecidableEq κ] : PyContains (Dict κ ν) κ := ⟨fun k d => d.contains k⟩
instance : PyContains Str Str := ⟨fun sub s => isInfixOf sub s⟩
@[simp] theorem pyContains_list {α} [DecidableEq α] (a : α) (l : List α) : pyContains a l = decide (a ∈ l) := rfl
@[simp] theorem pyContains_dict {κ ν} [DecidableEq κ] (k : κ) (d : Dict κ ν) : pyContains k d = d.contains k := rfl

/-- `c[k] = v` -/
class SetItem (C : Type) (K : Type) (V : Type) where
  setItem : C → K → V → M C
export SetItem (setItem)
instance {κ ν} [DecidableEq κ] : SetItem (Dict κ ν) κ ν := ⟨fun d k v => pure (d.set k v)⟩
instance {α} : SetItem (List α) Int α :=
  ⟨fun l i v => let j := normIndex i l.length
    if j < 0 ∨ j.toNat ≥ l.length then throw .index else pure (l.set j.toNat v)⟩
instance (priority := low) {V} [ToVal V] : SetItem Attrs String V := ⟨fun d k v => pure (d.set k (toVal v))⟩
@[simp] theorem setItem_attrs {V} [ToVal V] (d : Attrs) (k : String) (v : V) :
    (SetItem.setItem d k v : M Attrs) = .ok (d.set k (toVal v)) := by
  first | rfl | (unfold SetItem.setItem; rfl)
@[simp] theorem setItem_dict {κ ν} [DecidableEq κ] (d : Dict κ ν) (k : κ) (v : ν) : setItem d k v = .ok (d.set k v) := rfl

instance : PyCmp Int (Option Val) := ⟨fun a b => match b with | some b => pyLt a b | Option.none => false,
  fun a b => match b with | some b => pyGt a b | Option.none => false,
  fun a b => match b with | some b => pyEq a b | Option.none => false⟩
instance : PyCmp (Option Val) Int := ⟨fun a b => match a with | some a => pyLt a b | Option.none => false,
  fun a b => match a with | some a => pyGt a b | Option.none => false,
  fun a b => match a with | some a => pyEq a b | Option.none => false⟩
instance : PyCmp (Option Int) Int := ⟨fun a b => match a with | some a => decide (a < b) | Option.none => false,
  fun a b => match a with | some a => decide (a > b) | Option.none => false,
  fun a b => match a with | some a => decide (a = b) | Option.none => false⟩
instance {α} [PyStr α] : PyStr (Option α) := ⟨fun o => match o with | some a => pyStr a | Option.none => py!"None"⟩

/-- `x is None` -/
def isNone {α} (o : Option α) : Bool := o.isNone

/-- value of an `Option` known to be `some` by a preceding truthiness test -/
def optGet {α} [Inhabited α] (o : Option α) : α := o.getD default
instance : Inhabited Val := ⟨Val.none⟩
instance : Inhabited Flt := ⟨⟨[]⟩⟩
instance : Inhabited Graph := ⟨Graph.empty⟩
instance {κ ν} : Inhabited (Dict κ ν) := ⟨⟨[]⟩⟩

end Py
