/-
PyModel.Json — prints model values as JSON text for the differential harness (probe V1/V2):
the same inputs are run through CPython and through `lean --run`, and the outputs compared.
Harness only; no theorem depends on this file.
-/
import PyModel.Ops
set_option autoImplicit false

namespace Py

def jEscape (s : Str) : String :=
  String.join (s.map fun c =>
    if c = '"' then "\\\"" else if c = '\\' then "\\\\" else if c = '\n' then "\\n" else if c = '\r' then "\\r"
    else if c = '\t' then "\\t" else if c.toNat < 32 ∨ c.toNat > 126 then
      let h := (Nat.toDigits 16 c.toNat)
      if c.toNat < 65536 then "\\u" ++ String.ofList (List.replicate (4 - h.length) '0' ++ h)
      else
        let v := c.toNat - 65536
        let hi := Nat.toDigits 16 (0xD800 + v / 1024)
        let lo := Nat.toDigits 16 (0xDC00 + v % 1024)
        "\\u" ++ String.ofList hi ++ "\\u" ++ String.ofList lo
    else String.singleton c)

class ToJ (α : Type) where
  toJ : α → String
export ToJ (toJ)

def jList (l : List String) : String := "[" ++ ", ".intercalate l ++ "]"

instance : ToJ Int := ⟨fun i => toString i⟩
instance : ToJ Nat := ⟨fun i => toString i⟩
instance : ToJ Bool := ⟨fun b => if b then "true" else "false"⟩
instance : ToJ Unit := ⟨fun _ => "null"⟩
instance : ToJ String := ⟨fun s => "\"" ++ jEscape s.toList ++ "\""⟩
instance : ToJ Str := ⟨fun s => "\"" ++ jEscape s ++ "\""⟩
instance : ToJ Flt := ⟨fun f => "{\"f\": \"" ++ jEscape f.tok ++ "\"}"⟩
def Sc.toJ : Sc → String
  | .none => "null" | .bool b => ToJ.toJ b | .int i => ToJ.toJ i | .flt f => ToJ.toJ f | .str s => ToJ.toJ s
instance : ToJ Sc := ⟨Sc.toJ⟩
instance : ToJ Val := ⟨fun v => match v with
  | .sc s => toJ s
  | .tup l => "{\"t\": " ++ jList (l.map toJ) ++ "}"⟩
instance {α} [ToJ α] : ToJ (List α) := ⟨fun l => jList (l.map toJ)⟩
instance {α} [ToJ α] : ToJ (Option α) := ⟨fun o => match o with | some a => toJ a | Option.none => "null"⟩
instance {α β} [ToJ α] [ToJ β] : ToJ (α × β) := ⟨fun p => "[" ++ toJ p.1 ++ ", " ++ toJ p.2 ++ "]"⟩
instance {κ ν} [ToJ κ] [ToJ ν] : ToJ (Dict κ ν) := ⟨fun d => "{\"d\": " ++ jList (d.items.map fun p => "[" ++ toJ p.1 ++ ", " ++ toJ p.2 ++ "]") ++ "}"⟩
instance : ToJ Graph := ⟨fun g => "{\"node\": " ++ toJ g.node ++ ", \"adj\": " ++ toJ g.adj ++ "}"⟩
instance : ToJ Rng := ⟨fun r => "[" ++ toJ r.seed ++ ", " ++ toJ r.count ++ "]"⟩
instance : ToJ Err := ⟨fun e => match e with
  | .key => "\"KeyError\"" | .index => "\"IndexError\"" | .value => "\"ValueError\"" | .type_ => "\"TypeError\""
  | .assertion => "\"AssertionError\"" | .fuel => "\"OutOfFuel\"" | .custom c => "\"" ++ c ++ "\""⟩
instance {α} [ToJ α] : ToJ (M α) := ⟨fun r => match r with
  | .ok a => "{\"ok\": " ++ toJ a ++ "}"
  | .error e => "{\"error\": " ++ toJ e ++ "}"⟩

/-- igraph 1.0 `permute_vertices`: vertex `k` of the result is vertex `p[k]` of the argument
(used only by the harness environment) -/
def permuteVertices10 (ig : IGraph) (p : List Int) : IGraph :=
  let inv : Int → Int := fun old => Int.ofNat (p.idxOf old)
  ⟨p.map (fun i => ig.names.getD i.toNat 0), p.map (fun i => ig.attrs.getD i.toNat Dict.empty),
   ig.edges.map (fun e => (inv e.1, inv e.2))⟩

/-- decimal text of a float token with exactly six decimals (harness only; exact for tokens with
at most six decimals and no exponent) -/
def fmt6Tok (t : Str) : Str :=
  let neg := t.head? = some '-'
  let t := if neg ∨ t.head? = some '+' then t.drop 1 else t
  let ip := t.takeWhile (· ≠ '.')
  let fp := (t.dropWhile (· ≠ '.')).drop 1
  let fp := (fp ++ List.replicate 6 '0').take 6
  let ip := ip.dropWhile (· = '0')
  let ip := if ip = [] then ['0'] else ip
  let body := ip ++ ['.'] ++ fp
  let isZero := body.all (fun c => c = '0' ∨ c = '.')
  (if neg ∧ ¬ isZero then ['-'] else if neg then ['-'] else []) ++ body

/-- harness environment: sets iterate in reverse order of first occurrence, bliss results are
replayed from a table recorded from the real igraph by the Python side -/
def harnessEnv (table : List ((List Int × List Val × List (Int × Int)) × List Int)) (shuffles : List ((Nat × List Int) × List Int)) : DepEnv where
  setOrder := fun l => l.reverse
  canonicalPermutation := fun ig c =>
    match table.lookup (ig.names, c, ig.edges) with
    | some p => p
    | Option.none => range ig.names.length
  permuteVertices := permuteVertices10
  parseFloat := fun s =>
    let t := stripChar s ' '
    let body := if t.head? = some '-' ∨ t.head? = some '+' then t.drop 1 else t
    if body ≠ [] ∧ body.all (fun c => isAsciiDigit c ∨ c = '.') ∧ (body.filter (· = '.')).length ≤ 1 ∧ body ≠ ['.']
    then pure ⟨t⟩ else throw .value
  fmt6 := fun v => match v with
    | .sc (.flt f) => fmt6Tok f.tok
    | .sc (.int i) => fmt6Tok (pyStrInt i)
    | _ => py!"?"
  shuffle := fun _ k l => (shuffles.lookup (k, l)).getD l
  layout := fun _ => Dict.empty
  nowStamp := py!"0101700000"
  version := py!"0.1.0"

end Py
