/-
PyModel.Nx — reference model of the networkx 3.x `Graph` calls used by TUCAN
(DESIGN.md §4, assumption V2; probed differentially against the installed networkx).
A graph is the pair of insertion-ordered dicts networkx keeps: `_node` and `_adj`.
The edge-attribute dict of {u,v} is one shared object in networkx; the model stores
a copy in both directions and updates both.
-/
import PyModel.Basic
set_option autoImplicit false

namespace Py

structure Graph where
  node : Dict Int Attrs
  adj  : Dict Int (Dict Int Attrs)
  deriving Repr, DecidableEq

namespace Graph

def empty : Graph := ⟨Dict.empty, Dict.empty⟩

/-- iteration order of `for a in G` / `list(G)` / `G.nodes` -/
def nodeList (g : Graph) : List Int := g.node.keys
def hasNode (g : Graph) (n : Int) : Bool := g.node.contains n
def numberOfNodes (g : Graph) : Int := g.node.items.length

/-- `G.add_node(n, **a)` -/
def addNode (g : Graph) (n : Int) (a : Attrs) : Graph :=
  match g.node.get? n with
  | some old => { g with node := g.node.set n (old.update a) }
  | Option.none => { node := g.node.set n a, adj := g.adj.set n Dict.empty }

/-- `G.add_nodes_from(labels)` -/
def addNodesFrom (g : Graph) (ns : List Int) : Graph :=
  ns.foldl (fun g n => g.addNode n Dict.empty) g
/-- `G.add_nodes_from([(label, attrs), ...])` -/
def addNodesFromData (g : Graph) (ns : List (Int × Attrs)) : Graph :=
  ns.foldl (fun g p => g.addNode p.1 p.2) g

/-- `G.add_edge(u, v, **a)` -/
def addEdge (g : Graph) (u v : Int) (a : Attrs) : Graph :=
  let g := if g.hasNode u then g else g.addNode u Dict.empty
  let g := if g.hasNode v then g else g.addNode v Dict.empty
  let old := ((g.adj.get? u).bind (·.get? v)).getD Dict.empty
  let d := old.update a
  let au := (g.adj.get? u).getD Dict.empty
  let g := { g with adj := g.adj.set u (au.set v d) }
  let av := (g.adj.get? v).getD Dict.empty
  { g with adj := g.adj.set v (av.set u d) }

def addEdgesFrom (g : Graph) (es : List (Int × Int)) : Graph :=
  es.foldl (fun g e => g.addEdge e.1 e.2 Dict.empty) g
def addEdgesFromData (g : Graph) (es : List (Int × Int × Attrs)) : Graph :=
  es.foldl (fun g e => g.addEdge e.1 e.2.1 e.2.2) g

/-- `G.copy()`: nodes are re-added in iteration order with copied attribute dicts, then every
adjacency entry `(u, v)` is re-added in adjacency order — this changes the adjacency iteration
order of the copy (an edge is inserted into both endpoints when it is first met). -/
def copy (g : Graph) : Graph :=
  let h := g.node.items.foldl (fun h (p : Int × Attrs) => h.addNode p.1 p.2) Graph.empty
  g.adj.items.foldl (fun h (p : Int × Dict Int Attrs) =>
    p.2.items.foldl (fun h (q : Int × Attrs) => h.addEdge p.1 q.1 q.2) h) h

/-- `G.neighbors(a)` / `G[a]`: adjacency iteration order -/
def neighbors (g : Graph) (a : Int) : M (List Int) :=
  match g.adj.get? a with
  | some d => pure d.keys
  | Option.none => throw (.custom "NetworkXError")

/-- `G.edges(data=True)`: each undirected edge once, in adjacency iteration order -/
def edgesDataAux : List (Int × Dict Int Attrs) → List Int → List (Int × Int × Attrs)
  | [], _ => []
  | (n, nbrs) :: rest, seen =>
    (nbrs.items.filterMap (fun p => if p.1 ∈ seen then Option.none else some (n, p.1, p.2)))
      ++ edgesDataAux rest (n :: seen)
def edgesData (g : Graph) : List (Int × Int × Attrs) := edgesDataAux g.adj.items []
def edges (g : Graph) : List (Int × Int) := g.edgesData.map (fun e => (e.1, e.2.1))
def numberOfEdges (g : Graph) : Int := g.edgesData.length

def hasEdge (g : Graph) (u v : Int) : Bool :=
  match g.adj.get? u with
  | some d => d.contains v
  | Option.none => false

/-- `G.edges == H.edges` (EdgeView is a `collections.abc.Set`): same size and every edge of
`G` is an edge of `H` -/
def edgesEq (g h : Graph) : Bool :=
  g.numberOfEdges == h.numberOfEdges && g.edges.all (fun e => h.hasEdge e.1 e.2)

/-- `G.nodes(data=True)` / `G.nodes.items()` -/
def nodesData (g : Graph) : List (Int × Attrs) := g.node.items
/-- `G.nodes(data=name)` / `G.nodes.data(name)`: missing attribute gives `None` -/
def nodesDataKey (g : Graph) (name : String) : List (Int × Val) :=
  g.node.items.map (fun p => (p.1, (p.2.get? name).getD Val.none))
/-- `G.nodes.data(name)[n]` -/
def nodeDataGet (g : Graph) (name : String) (n : Int) : M Val :=
  match g.node.get? n with
  | some a => pure ((a.get? name).getD Val.none)
  | Option.none => throw .key
/-- `G.nodes[n]` -/
def nodeAttrs (g : Graph) (n : Int) : M Attrs :=
  match g.node.get? n with
  | some a => pure a
  | Option.none => throw .key
/-- `G.nodes[n][name] = v` -/
def setNodeAttr1 (g : Graph) (n : Int) (name : String) (v : Val) : M Graph :=
  match g.node.get? n with
  | some a => pure { g with node := g.node.set n (a.set name v) }
  | Option.none => throw .key

/-- `nx.set_node_attributes(G, {n: v}, name)`: unknown nodes are skipped -/
def setNodeAttrNamed (g : Graph) (values : Dict Int Val) (name : String) : Graph :=
  values.items.foldl (fun g (p : Int × Val) =>
    match g.node.get? p.1 with
    | some a => { g with node := g.node.set p.1 (a.set name p.2) }
    | Option.none => g) g
/-- `nx.set_node_attributes(G, constant, name)` -/
def setNodeAttrScalar (g : Graph) (v : Val) (name : String) : Graph :=
  { g with node := ⟨g.node.items.map (fun p => (p.1, p.2.set name v))⟩ }
/-- `nx.set_node_attributes(G, {n: {k: v}})`: unknown nodes are skipped -/
def setNodeAttrDicts (g : Graph) (values : Dict Int Attrs) : Graph :=
  values.items.foldl (fun g (p : Int × Attrs) =>
    match g.node.get? p.1 with
    | some a => { g with node := g.node.set p.1 (a.update p.2) }
    | Option.none => g) g
/-- `nx.set_edge_attributes(G, {(u, v): {k: v}})`: unknown edges are skipped -/
def setEdgeAttrDicts (g : Graph) (values : Dict (Int × Int) Attrs) : Graph :=
  values.items.foldl (fun g (p : (Int × Int) × Attrs) =>
    let (u, v) := p.1
    match g.adj.get? u with
    | Option.none => g
    | some au =>
      match au.get? v with
      | Option.none => g
      | some d =>
        let d' := d.update p.2
        let g := { g with adj := g.adj.set u (au.set v d') }
        match g.adj.get? v with
        | Option.none => g
        | some av => { g with adj := g.adj.set v (av.set u d') }) g
/-- `nx.get_node_attributes(G, name)` -/
def getNodeAttributes (g : Graph) (name : String) : Dict Int Val :=
  ⟨g.node.items.filterMap (fun p => (p.2.get? name).map (fun v => (p.1, v)))⟩

/-- `nx.relabel_nodes(G, mapping, copy=True)` (networkx `_relabel_copy`) -/
def relabelCopy (g : Graph) (mapping : Dict Int Int) : Graph :=
  let f := fun n => (mapping.get? n).getD n
  let h := g.node.items.foldl (fun h (p : Int × Attrs) => h.addNode (f p.1) Dict.empty) Graph.empty
  let h := { h with node := h.node.updatePairs (g.node.items.map (fun p => (f p.1, p.2))) }
  g.edgesData.foldl (fun h (e : Int × Int × Attrs) => h.addEdge (f e.1) (f e.2.1) e.2.2) h

/-- `nx.convert_node_labels_to_integers(G)` -/
def convertNodeLabelsToIntegers (g : Graph) : Graph :=
  g.relabelCopy (Dict.ofPairs (zip g.nodeList (range g.numberOfNodes)))

/-- `nx.density(G) != 1`, computed exactly: `2·|E| ≠ n·(n-1)` unless `|E| = 0 ∨ n ≤ 1` (then the
density is 0). Exact below 2^53 (DESIGN.md §3). -/
def densityNeOne (g : Graph) : Bool :=
  let n := g.numberOfNodes
  let m := g.numberOfEdges
  if m = 0 ∨ n ≤ 1 then true else decide (2 * m ≠ n * (n - 1))

end Graph

end Py
