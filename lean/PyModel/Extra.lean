/-
PyModel.Extra — model operations that the unchanged repository does not use; imported by a
generated module only when the extracted code needs them (so that editing this file does not
invalidate the compiled contracts).
-/
import PyModel.Ops
set_option autoImplicit false

namespace Py

/-- `s.add(x)` -/
def PSet.add {α} [DecidableEq α] (s : PSet α) (x : α) : PSet α := if x ∈ s.elems then s else ⟨s.elems ++ [x]⟩
/-- `x in s` -/
instance {α} [DecidableEq α] : PyContains (PSet α) α := ⟨fun a s => decide (a ∈ s.elems)⟩
instance {α} : Truthy (PSet α) := ⟨fun s => !s.elems.isEmpty⟩
instance {α} : PyLen (PSet α) := ⟨fun s => s.elems.length⟩

end Py
