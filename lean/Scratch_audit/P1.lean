import Contracts.Final
import Contracts.V2000
set_option autoImplicit false
open Py Py.Graph Contracts

namespace Contracts.Witness
open Contracts.Parser (water water_wf water_ok treeOf denote Represents AbstractMol expand)
open Contracts.Partition (Carries)
open Contracts.Canonicalize (identityKeys CodeDetermines)
open Contracts.FinalLabels (fuelBound)
open Contracts.RoundTrip (MolOK idKeys)
open Contracts.Final (IdOK InvariantCodeOK)

noncomputable abbrev env0 : DepEnv := BlissModel.env
noncomputable def env1 : DepEnv := { BlissModel.env with setOrder := fun l => l.reverse }

theorem env0_set : env0.SetLawful := fun _ => List.Perm.refl _
theorem env1_set : env1.SetLawful := fun l => List.reverse_perm l
theorem env0_bliss : BlissLawful env0 := BlissModel.blissLawful_env
theorem env1_cp : env1.canonicalPermutation = env0.canonicalPermutation := rfl
theorem env1_pv : env1.permuteVertices = env0.permuteVertices := rfl
/-- the two set orders really differ -/
example : env1.setOrder [1, 2] ≠ env0.setOrder [1, 2] := by
  show [1, 2].reverse ≠ [1, 2]
  decide

theorem nat_small {n : Nat} (h : n < 100) : n < 10 ^ 4300 :=
  lt_of_lt_of_le h (by
    calc (100 : Nat) = 10 ^ 2 := by norm_num
      _ ≤ 10 ^ 4300 := Nat.pow_le_pow_right (by norm_num) (by norm_num))

structure IsWater (g : Graph) : Prop where
  parsed : Tucan.parser.graph_from_tree env0 (treeOf water) = .ok g
  repr : ∃ mol, denote water = .ok mol ∧ Represents g mol

theorem water_exists : ∃ g, IsWater g := by
  obtain ⟨g, mol, e, hg, R⟩ := Contracts.Parser.graph_from_tree_accepts env0 _ water_wf water_ok
  exact ⟨g, hg, mol, e, R⟩

theorem expand_water : expand water.formula = [py!"H", py!"H", py!"O"] := by decide

structure WaterFacts (g : Graph) : Prop where
  idOK : IdOK g
  ne : g.nodeList ≠ []
  loopless : g.Loopless
  molOK : MolOK g
  nodes : g.nodeList = [0, 1, 2]

theorem IsWater.facts {g : Graph} (W : IsWater g) : WaterFacts g := by
  obtain ⟨mol, e, R⟩ := W.repr
  have hlen := Contracts.Final.denote_atoms_length e
  rw [expand_water] at hlen
  have hne : mol.atoms ≠ [] := by
    intro h0; rw [h0] at hlen; simp at hlen
  obtain ⟨_, h2, _, _, _, _, h7, h8⟩ := Contracts.Final.parsed_ok water_wf e R hne
  have hm := Contracts.Final.denote_molWf water_wf e
  have hs := Contracts.Final.denote_small water_wf e (by rw [expand_water]; exact nat_small (by decide))
  refine ⟨h8, h2, h7, Contracts.Final.parsed_molOK R hm hs, ?_⟩
  rw [R.nodes, hlen]; rfl

end Contracts.Witness
