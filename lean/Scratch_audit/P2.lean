import Contracts.Final
import Contracts.V2000
set_option autoImplicit false
open Py Py.Graph Contracts

namespace Contracts.Witness
open Contracts.Parser (water water_wf water_ok treeOf denote Represents AbstractMol expand)
open Contracts.Partition (Carries)
open Contracts.Canonicalize (identityKeys CodeDetermines)
open Contracts.FinalLabels (fuelBound)
open Contracts.RoundTrip (MolOK idKeys)
open Contracts.Final (IdOK InvariantCodeOK)

noncomputable abbrev env0 : DepEnv := BlissModel.env
noncomputable def env1 : DepEnv := { BlissModel.env with setOrder := fun l => l.reverse }

theorem env0_set : env0.SetLawful := fun _ => List.Perm.refl _
theorem env1_set : env1.SetLawful := fun l => List.reverse_perm l
theorem env0_bliss : BlissLawful env0 := BlissModel.blissLawful_env
theorem env1_cp : env1.canonicalPermutation = env0.canonicalPermutation := rfl
theorem env1_pv : env1.permuteVertices = env0.permuteVertices := rfl
/-- the two set orders really differ -/
example : env1.setOrder [1, 2] ≠ env0.setOrder [1, 2] := by
  show [1, 2].reverse ≠ [1, 2]
  decide

theorem nat_small {n : Nat} (h : n < 100) : n < 10 ^ 4300 :=
  lt_of_lt_of_le h (by
    calc (100 : Nat) = 10 ^ 2 := by norm_num
      _ ≤ 10 ^ 4300 := Nat.pow_le_pow_right (by norm_num) (by norm_num))

structure IsWater (g : Graph) : Prop where
  parsed : Tucan.parser.graph_from_tree env0 (treeOf water) = .ok g
  repr : ∃ mol, denote water = .ok mol ∧ Represents g mol

theorem water_exists : ∃ g, IsWater g := by
  obtain ⟨g, mol, e, hg, R⟩ := Contracts.Parser.graph_from_tree_accepts env0 _ water_wf water_ok
  exact ⟨g, hg, mol, e, R⟩

theorem expand_water : expand water.formula = [py!"H", py!"H", py!"O"] := by decide

structure WaterFacts (g : Graph) : Prop where
  idOK : IdOK g
  ne : g.nodeList ≠ []
  loopless : g.Loopless
  molOK : MolOK g
  nodes : g.nodeList = [0, 1, 2]

theorem IsWater.facts {g : Graph} (W : IsWater g) : WaterFacts g := by
  obtain ⟨mol, e, R⟩ := W.repr
  have hlen := Contracts.Final.denote_atoms_length e
  rw [expand_water] at hlen
  have hne : mol.atoms ≠ [] := by
    intro h0; rw [h0] at hlen; simp at hlen
  obtain ⟨_, h2, _, _, _, _, h7, h8⟩ := Contracts.Final.parsed_ok water_wf e R hne
  have hm := Contracts.Final.denote_molWf water_wf e
  have hs := Contracts.Final.denote_small water_wf e (by rw [expand_water]; exact nat_small (by decide))
  refine ⟨h8, h2, h7, Contracts.Final.parsed_molOK R hm hs, ?_⟩
  rw [R.nodes, hlen]; rfl


/-! ## single-molecule theorems on the parsed water -/

/-- `Pipeline.C15_pipeline_total`, instance: every hypothesis holds for water / `env0` -/
theorem C15_witness {g : Graph} (W : IsWater g) :
    ∃ c s m', Tucan.canonicalization.canonicalize_molecule env0 (g.nodeList.length + 1) g = .ok c ∧
      Tucan.serialization.serialize_molecule env0 (fuelBound g) c = .ok (s, m') := by
  have F := W.facts
  have h1 : env0.SetLawful := env0_set
  have h2 : BlissLawful env0 := env0_bliss
  have h3 : g.WF := F.idOK.wf
  have h4 : g.nodeList ≠ [] := F.ne
  have h5 : Carries g "invariant_code" := F.idOK.carries_code
  have h6 : Carries g "atomic_number" := F.idOK.carries_Z
  have h7 : g.nodeList.length + 1 ≥ g.nodeList.length + 1 := le_refl _
  have h8 : fuelBound g ≥ fuelBound g := le_refl _
  exact Contracts.Pipeline.C15_pipeline_total h1 h2 h3 h4 h5 h6 _ _ h7 h8

/-- `Canonicalize.C12_main`, instance -/
theorem C12_witness {g : Graph} (W : IsWater g) :
    ∃ r, Tucan.canonicalization.canonicalize_molecule env0 (g.nodeList.length + 1) g = .ok r ∧ r.WF ∧
      r.nodeList.Perm (range g.numberOfNodes) ∧
      ∃ ρ, Relabel.IsRelabelExcept "partition" ρ g r ∧ (∀ k, k ≠ "partition" → IsIsoOn k ρ g r) := by
  have F := W.facts
  exact Contracts.Canonicalize.C12_main env0_set env0_bliss F.idOK.wf F.ne F.idOK.carries_code _ (le_refl _)

theorem symbols_ok {g : Graph} (ok : IdOK g) : ∀ s ∈ Contracts.Serialize.symbolsOf g, s ∈ Tucan.Consts.ELEMENT_ATTRS.keys := by
  intro s hs
  rw [Contracts.Layout.symbolsOf_eq ok.wf, List.mem_filterMap] at hs
  obtain ⟨a, ha, e⟩ := hs
  obtain ⟨t, ht, e1, _⟩ := ok.elem a ha
  rw [e1] at e
  simp only [Option.map_some, Option.some.injEq] at e
  subst e
  rw [Contracts.Parser.keys_eq_table]
  exact ht

/-- `Pipeline.C05_pipeline`, instance (conclusion abbreviated to its first two conjuncts) -/
theorem C05_witness {g : Graph} (W : IsWater g) :
    ∃ c ms s, Contracts.Pipeline.Run env0 (g.nodeList.length + 1) (fuelBound g) g c ms s ∧
      Contracts.Layout.Grammar.tucan s := by
  have F := W.facts
  have hsym : ∀ s ∈ Contracts.Serialize.symbolsOf g, s ∈ Tucan.Consts.ELEMENT_ATTRS.keys := symbols_ok F.idOK
  have hmass : ∀ a ∈ g.nodeList, ∀ v, g.attr a "mass" = some v → Contracts.Layout.Grammar.PosInt v :=
    fun a ha v hv => F.idOK.mass a ha v hv
  have hrad : ∀ a ∈ g.nodeList, ∀ v, g.attr a "rad" = some v → Contracts.Layout.Grammar.PosInt v :=
    fun a ha v hv => F.idOK.rad a ha v hv
  obtain ⟨c, ms, s, R, G, _⟩ := Contracts.Pipeline.C05_pipeline env0_set env0_bliss F.idOK.wf F.ne F.idOK.carries_code
    F.idOK.carries_Z hsym hmass hrad _ _ (le_refl (g.nodeList.length + 1)) (le_refl (fuelBound g))
  exact ⟨c, ms, s, R, G⟩

/-! ## a second description of water: atoms renumbered 0 ↔ 2, listed in the order 2, 1, 0 -/

def flip (g : Graph) : Graph := g.relabelCopy (Dict.ofPairs (zip g.nodeList g.nodeList.reverse))
def flipMap (g : Graph) : Int → Int := relabelFun (Dict.ofPairs (zip g.nodeList g.nodeList.reverse))

structure FlipFacts (g : Graph) : Prop where
  wf : (flip g).WF
  rel : IsRelabel (flipMap g) g (flip g)
  nodes : (flip g).nodeList = g.nodeList.map (flipMap g)

theorem flip_facts {g : Graph} (hg : g.WF) : FlipFacts g := by
  obtain ⟨w, n, -, r⟩ := relabelCopy_zip_spec hg (List.Perm.refl g.nodeList)
    (List.nodup_reverse.2 hg.nodup_nodeList) (List.length_reverse).symm
  exact ⟨w, r, n⟩

/-- the renumbering is not the identity, and the node order of the second description is `2, 1, 0` -/
theorem flip_nontrivial {g : Graph} (W : IsWater g) : flipMap g 0 = 2 ∧ (flip g).nodeList = [2, 1, 0] := by
  have F := W.facts
  have hn := F.idOK.wf.nodup_nodeList
  have hl : g.nodeList.length = g.nodeList.reverse.length := (List.length_reverse).symm
  have h0 : flipMap g 0 = 2 := by
    unfold flipMap; rw [relabelFun_zip hn hl (by rw [F.nodes]; decide)]; simp [F.nodes]
  have h1 : flipMap g 1 = 1 := by
    unfold flipMap; rw [relabelFun_zip hn hl (by rw [F.nodes]; decide)]; simp [F.nodes]
  have h2 : flipMap g 2 = 0 := by
    unfold flipMap; rw [relabelFun_zip hn hl (by rw [F.nodes]; decide)]; simp [F.nodes]
  refine ⟨h0, ?_⟩
  rw [(flip_facts F.idOK.wf).nodes, F.nodes]
  simp [h0, h1, h2]

/-- `Pipeline.C01_main`, instance: water and its renumbered / reordered description, two different `set`
iteration orders -/
theorem C01_witness {g : Graph} (W : IsWater g) :
    ∃ rg rh s, Tucan.canonicalization.canonicalize_molecule env0 (fuelBound g) g = .ok rg ∧
      Tucan.canonicalization.canonicalize_molecule env1 (fuelBound (flip g)) (flip g) = .ok rh ∧
      Tucan.serialization.serialize_molecule env0 (fuelBound g) rg = .ok (s, FinalLabels.clearExplored rg) ∧
      Tucan.serialization.serialize_molecule env1 (fuelBound (flip g)) rh = .ok (s, FinalLabels.clearExplored rh) := by
  have F := W.facts
  have FF := flip_facts F.idOK.wf
  have hs₁ : env0.SetLawful := env0_set
  have hs₂ : env1.SetLawful := env1_set
  have hb : BlissLawful env0 := env0_bliss
  have hcp : env1.canonicalPermutation = env0.canonicalPermutation := rfl
  have hpv : env1.permuteVertices = env0.permuteVertices := rfl
  have hg : g.WF := F.idOK.wf
  have hh : (flip g).WF := FF.wf
  have hne : g.nodeList ≠ [] := F.ne
  have cg : Carries g "invariant_code" := F.idOK.carries_code
  have ag : Carries g "atomic_number" := F.idOK.carries_Z
  have hiso : IsIsoOn "invariant_code" (flipMap g) g (flip g) := FF.rel.isIsoOn _
  have hcarry : ∀ key ∈ identityKeys, ∀ n ∈ g.nodeList, (flip g).attr (flipMap g n) key = g.attr n key :=
    fun key _ n hn => FF.rel.attrs n hn key
  have hdet : ∀ key ∈ identityKeys, CodeDetermines g key := F.idOK.codeDetermines
  exact Contracts.Pipeline.C01_main hs₁ hs₂ hb hcp hpv hg hh hne cg ag hiso hcarry hdet
    (fuelBound g) (fuelBound g) (fuelBound (flip g)) (fuelBound (flip g))
    (Contracts.Pipeline.length_le_fuelBound g) (le_refl _) (Contracts.Pipeline.length_le_fuelBound _) (le_refl _)

/-- `Canonicalize.C04_main`, instance -/
theorem C04_witness {g : Graph} (W : IsWater g) :
    ∃ rg rh, Tucan.canonicalization.canonicalize_molecule env0 (g.nodeList.length + 1) g = .ok rg ∧
      Tucan.canonicalization.canonicalize_molecule env1 ((flip g).nodeList.length + 1) (flip g) = .ok rh ∧
      rg.WF ∧ rh.WF ∧
      rg.nodeList.Perm (range g.numberOfNodes) ∧ rh.nodeList.Perm (range g.numberOfNodes) ∧
      (∀ (k : Int) (key : String), key ∈ identityKeys ++ ["invariant_code", "partition"] →
        rg.attr k key = rh.attr k key) ∧
      (∀ j k : Int, j ∈ rg.nbrs k ↔ j ∈ rh.nbrs k) := by
  have F := W.facts
  have FF := flip_facts F.idOK.wf
  exact Contracts.Canonicalize.C04_main env0_set env1_set env0_bliss rfl rfl F.idOK.wf FF.wf F.ne F.idOK.carries_code
    (FF.rel.isIsoOn _) (fun key _ n hn => FF.rel.attrs n hn key) F.idOK.codeDetermines _ _ (le_refl _) (le_refl _)

/-- `Canonicalize.C13_main`, instance -/
theorem C13_witness {g : Graph} (W : IsWater g) :
    ∃ rg rh ρg ρh, Tucan.canonicalization.canonicalize_molecule env0 (g.nodeList.length + 1) g = .ok rg ∧
      Tucan.canonicalization.canonicalize_molecule env1 ((flip g).nodeList.length + 1) (flip g) = .ok rh ∧
      Relabel.IsRelabelExcept "partition" ρg g rg ∧ Relabel.IsRelabelExcept "partition" ρh (flip g) rh ∧
      (∀ a ∈ g.nodeList, rg.attr (ρg a) "partition" = rh.attr (ρh (flipMap g a)) "partition") ∧
      Contracts.Canonicalize.ClassesOK rg ∧ Contracts.Canonicalize.ClassesOK rh := by
  have F := W.facts
  have FF := flip_facts F.idOK.wf
  exact Contracts.Canonicalize.C13_main env0_set env1_set env0_bliss rfl rfl F.idOK.wf FF.wf F.ne F.idOK.carries_code
    (FF.rel.isIsoOn _) _ _ (le_refl _) (le_refl _)

end Contracts.Witness
