import Generated.V3000
set_option autoImplicit false
open Py

theorem detect_hydrogen_isotopes_ok (env : DepEnv) (s : Str) :
    Tucan.element_attributes.detect_hydrogen_isotopes env s =
      .ok (if s = py!"D" then (py!"H", 2) else if s = py!"T" then (py!"H", 3) else (s, 0)) := by
  unfold Tucan.element_attributes.detect_hydrogen_isotopes
  simp only [pyEq, PyCmp.eq]
  by_cases h1 : s = py!"D"
  · subst h1; rfl
  · by_cases h2 : s = py!"T"
    · subst h2; rfl
    · simp [h1, h2]

example (k v : Str) (h : '=' ∉ k) : split (k ++ '=' :: v) ['='] = k :: split v ['='] := by
  unfold split
  sorry
