import Generated.V3000
open Py
open List in
#check @List.mem_takeWhile_imp
#check @List.mem_takeWhile
example {α} (p : α → Bool) (l : List α) (c : α) (h : c ∈ l.takeWhile p) : p c = true := by
  exact?
