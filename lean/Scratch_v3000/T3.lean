import Generated.V3000
set_option autoImplicit false
open Py
example (c : Char) (cs : Str) (hc : ¬ '=' = c) : ['='].isPrefixOf (c :: cs) = false := by
  simp [List.isPrefixOf, hc]
example (c d : Char) (cs ds : Str)  : (d :: ds).isPrefixOf (c :: cs) = (decide (c = d) && ds.isPrefixOf cs) := by
  simp [List.isPrefixOf]
  
