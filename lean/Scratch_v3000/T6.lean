import Generated.V3000
set_option autoImplicit false
open Py

def pat : Str := py!"ENDPTS=("

theorem searchAux_none (s : Str) (h : '(' ∉ s) : ∀ fuel, searchEndptsAux fuel s = none := by
  induction s with
  | nil => intro fuel; cases fuel <;> rfl
  | cons c cs ih =>
    intro fuel
    cases fuel with
    | zero => rfl
    | succ fuel =>
      simp only [List.mem_cons, not_or] at h
      have hp : (py!"ENDPTS=(").isPrefixOf (c :: cs) = false := by
        by_contra hp
        simp only [Bool.not_eq_false, List.isPrefixOf_iff_prefix] at hp
        obtain ⟨t, ht⟩ := hp
        have : '(' ∈ c :: cs := by rw [← ht]; simp
        simp only [List.mem_cons] at this
        rcases this with h1 | h1
        · exact h.1 h1
        · exact h.2 h1
      simp only [searchEndptsAux, hp, Bool.false_eq_true, if_false]
      exact ih h.2 fuel

theorem noHit (P rest : Str) (hP : '(' ∉ P) (hne : P ≠ []) :
    (py!"ENDPTS=(").isPrefixOf (P ++ (py!"ENDPTS=(" ++ rest)) = false := by
  rcases P with _ | ⟨c0, _ | ⟨c1, _ | ⟨c2, _ | ⟨c3, _ | ⟨c4, _ | ⟨c5, _ | ⟨c6, _ | ⟨c7, P⟩⟩⟩⟩⟩⟩⟩⟩
  · exact absurd rfl hne
  all_goals simp only [List.mem_cons, not_or, List.not_mem_nil, not_false_eq_true, and_true] at hP
  all_goals simp [List.isPrefixOf]
  intros; exact hP.2.2.2.2.2.2.2.1

theorem lastParenIdx_hit (B Q : Str) (hB : B ≠ []) (hQ : ')' ∉ Q) :
    lastParenIdx (B ++ ')' :: Q) = some B.length := by
  unfold lastParenIdx
  have hlen : (B ++ ')' :: Q).length = (B.length + 1) + Q.length := by simp; omega
  rw [hlen, List.range_add, List.filter_append, List.range_succ, List.filter_append]
  have h2 : List.filter (fun i => decide ((B ++ ')' :: Q)[i]? = some ')' ∧ i ≥ 1))
      (List.map (fun x => B.length + 1 + x) (List.range Q.length)) = [] := by
    rw [List.filter_eq_nil_iff]
    intro i hi
    simp only [List.mem_map, List.mem_range] at hi
    obtain ⟨j, hj, rfl⟩ := hi
    have : (B ++ ')' :: Q)[B.length + 1 + j]? = Q[j]? := by
      rw [List.getElem?_append_right (by omega)]
      have : B.length + 1 + j - B.length = j + 1 := by omega
      rw [this]; rfl
    simp only [this, decide_eq_true_eq, not_and]
    intro hq
    exact absurd (List.mem_of_getElem? hq) hQ
  have h1 : List.filter (fun i => decide ((B ++ ')' :: Q)[i]? = some ')' ∧ i ≥ 1)) [B.length] = [B.length] := by
    have hpos : B.length ≥ 1 := by
      cases B with
      | nil => exact absurd rfl hB
      | cons _ _ => simp
    simp [hpos]
  rw [h1, h2]
  simp

theorem takeWhile_all {α} (p : α → Bool) (l : List α) (h : ∀ a ∈ l, p a = true) : l.takeWhile p = l := by
  induction l with
  | nil => rfl
  | cons a l ih => simp [List.takeWhile, h a (by simp), ih (fun b hb => h b (by simp [hb]))]

theorem searchAux_hit (B Q : Str) (hB : B ≠ []) (hQ : ')' ∉ Q) (hnlB : '\n' ∉ B) (hnlQ : '\n' ∉ Q) :
    ∀ (P : Str), '(' ∉ P → ∀ fuel, P.length + 1 ≤ fuel →
      searchEndptsAux fuel (P ++ (py!"ENDPTS=(" ++ (B ++ ')' :: Q))) = some (py!"ENDPTS=(" ++ (B ++ [')'])) := by
  intro P
  induction P with
  | nil =>
    intro _ fuel hf
    cases fuel with
    | zero => simp at hf
    | succ fuel =>
      have hline : List.takeWhile (fun x => !decide (x = '\n')) (B ++ ')' :: Q) = B ++ ')' :: Q := by
        apply takeWhile_all
        intro a ha
        simp only [List.mem_append, List.mem_cons] at ha
        rcases ha with ha | rfl | ha
        · simp; rintro rfl; exact hnlB ha
        · decide
        · simp; rintro rfl; exact hnlQ ha
      simp [searchEndptsAux, List.isPrefixOf, hline, lastParenIdx_hit B Q hB hQ]
      have e : 'N' :: 'D' :: 'P' :: 'T' :: 'S' :: '=' :: '(' :: (B ++ ')' :: Q) = (py!"NDPTS=(" ++ B ++ [')']) ++ Q := by simp
      rw [e, List.take_left' (by simp; omega)]; simp
  | cons c P ih =>
    intro hP fuel hf
    cases fuel with
    | zero => simp at hf
    | succ fuel =>
      have hno := noHit (c :: P) (B ++ ')' :: Q) hP (by simp)
      simp only [List.mem_cons, not_or] at hP
      simp only [List.cons_append] at hno
      simp only [List.cons_append, searchEndptsAux, hno, Bool.false_eq_true, if_false]
      exact ih hP.2 fuel (by simpa using hf)

