import Generated.V3000
set_option autoImplicit false
open Py

def intChar (c : Char) : Bool := isPySpace c || c == '-' || c == '+' || c == '_' || isAsciiDigit c

theorem mem_dropWhile_or {α} (p : α → Bool) (l : List α) (c : α) (h : c ∈ l) : p c = true ∨ c ∈ l.dropWhile p := by
  induction l with
  | nil => simp at h
  | cons a l ih =>
    by_cases hp : p a = true
    · rw [List.dropWhile_cons_of_pos hp]
      rcases List.mem_cons.mp h with rfl | h
      · exact Or.inl hp
      · exact ih h
    · rw [List.dropWhile_cons_of_neg hp]; exact Or.inr h

theorem mem_rstrip_or (u : Str) (c : Char) (h : c ∈ u) : isPySpace c = true ∨ c ∈ rstrip u := by
  unfold rstrip
  rw [List.mem_reverse]
  exact mem_dropWhile_or _ _ _ (List.mem_reverse.mpr h)

theorem parseInt_ok_chars (s : Str) (n : Int) (h : parseInt s = .ok n) : ∀ c ∈ s, intChar c = true := by
  intro c hc
  have hsp : isPySpace c = true → intChar c = true := by intro h; simp [intChar, h]
  rcases mem_dropWhile_or isPySpace s c hc with h1 | h1
  · exact hsp h1
  rcases mem_rstrip_or _ c h1 with h2 | h2
  · exact hsp h2
  unfold parseInt at h
  generalize rstrip (s.dropWhile isPySpace) = t at h h2
  have hds : ∀ ds : Str, ((ds.filter (· ≠ '_')).all isAsciiDigit = true) → ∀ c ∈ ds, intChar c = true := by
    intro ds hall c hc
    by_cases hu : c = '_'
    · subst hu; decide
    · have : c ∈ ds.filter (· ≠ '_') := by simp [hc, hu]
      have := List.all_eq_true.mp hall c this
      simp [intChar, this]
  have key : ∀ {P : Prop} [Decidable P] {v : Int}, (if P then (throw Err.value : M Int) else pure v) = .ok n → ¬ P := by
    intro P _ v h hp; simp [hp] at h
  simp only at h
  split at h
  all_goals
    dsimp only at h
    have hcond := key h
    simp only [not_or, Bool.not_eq_false] at hcond
    have hall := hcond.2.1
  · rcases List.mem_cons.mp h2 with rfl | h2
    · decide
    · exact hds _ hall c h2
  · rcases List.mem_cons.mp h2 with rfl | h2
    · decide
    · exact hds _ hall c h2
  · exact hds _ hall c h2
