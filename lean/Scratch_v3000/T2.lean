import Generated.V3000
set_option autoImplicit false
open Py

theorem splitOnAux_eq_no (s : Str) (h : '=' ∉ s) : ∀ (fuel : Nat) (cur : Str), s.length ≤ fuel →
    splitOnAux ['='] fuel s cur = [cur.reverse ++ s] := by
  induction s with
  | nil => intro fuel cur _; cases fuel <;> simp [splitOnAux]
  | cons c cs ih =>
    intro fuel cur hf
    cases fuel with
    | zero => simp at hf
    | succ fuel =>
      have hc : c ≠ '=' := by intro e; apply h; simp [e]
      have hcs : '=' ∉ cs := by intro e; apply h; simp [e]
      simp only [splitOnAux]
      have : ¬ ((['='].isPrefixOf (c :: cs)) = true ∧ ['='] ≠ []) := by
        simp [hc]
      rw [if_neg this, ih hcs fuel (c :: cur) (by simpa using hf)]
      simp

theorem splitOnAux_eq_cons (k v : Str) (h : '=' ∉ k) : ∀ (fuel : Nat) (cur : Str), k.length + 1 ≤ fuel →
    splitOnAux ['='] fuel (k ++ '=' :: v) cur = (cur.reverse ++ k) :: splitOnAux ['='] (fuel - k.length - 1) v [] := by
  induction k with
  | nil =>
    intro fuel cur hf
    cases fuel with
    | zero => simp at hf
    | succ fuel => simp [splitOnAux]
  | cons c cs ih =>
    intro fuel cur hf
    cases fuel with
    | zero => simp at hf
    | succ fuel =>
      have hc : c ≠ '=' := by intro e; apply h; simp [e]
      have hcs : '=' ∉ cs := by intro e; apply h; simp [e]
      simp only [splitOnAux, List.cons_append]
      have : ¬ ((['='].isPrefixOf (c :: (cs ++ '=' :: v))) = true ∧ ['='] ≠ []) := by
        simp [hc]
      rw [if_neg this, ih hcs fuel (c :: cur) (by simpa using hf)]
      simp
      congr 1
      omega

theorem split_eq_cons (k v : Str) (h : '=' ∉ k) : split (k ++ '=' :: v) ['='] = k :: split v ['='] := by
  unfold split
  rw [splitOnAux_eq_cons k v h _ _ (by simp; omega)]
  simp
  congr 1
  omega

theorem split_eq_no (s : Str) (h : '=' ∉ s) : split s ['='] = [s] := by
  unfold split
  rw [splitOnAux_eq_no s h _ _ (by omega)]
  simp
