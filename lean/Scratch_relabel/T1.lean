import Spec.GraphLemmas
import Generated.Canonicalization
open Py

example (env : DepEnv) (fuel : Nat) (m : Graph) (x) : Tucan.canonicalization.refine_partitions env fuel m = x := by
  unfold Tucan.canonicalization.refine_partitions
  simp only [Py.pure_eq_ok]
  trace_state
  sorry
example (env : DepEnv) (m : Graph) (a : String) (x) : Tucan.canonicalization.partition_molecule_by_attribute env m a = x := by
  unfold Tucan.canonicalization.partition_molecule_by_attribute
  simp only [Py.pure_eq_ok]
  trace_state
  sorry
example (env : DepEnv) (fuel : Nat) (m : Graph) (x) : Tucan.canonicalization.canonicalize_molecule env fuel m = x := by
  unfold Tucan.canonicalization.canonicalize_molecule Tucan.canonicalization.assign_canonical_labels
  simp only [Py.pure_eq_ok, Py.ok_bind]
  trace_state
  sorry
