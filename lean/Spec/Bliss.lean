/-
Spec.Bliss — the assumed contract of bliss as used through igraph (`Graph.from_networkx`,
`canonical_permutation(color=…)`, `permute_vertices`), DESIGN.md §4 assumption V3.

Nothing here is an axiom: `BlissLawful env` is a hypothesis of the theorems that need it. The law is
stated without fixing the direction (old→new / new→old) of the permutation vector: only the graph
obtained by *applying* the permutation is mentioned, exactly as the code under contract uses it.

Also: what `IGraph.fromNetworkx` produces for a well-formed networkx graph.
-/
import Spec.GraphLemmas
set_option autoImplicit false

namespace Py

/-! ## small list facts -/

theorem getElem?_idxOf_of_mem {l : List Int} {a : Int} (h : a ∈ l) : l[l.idxOf a]? = some a := by
  rw [List.getElem?_eq_getElem (List.idxOf_lt_length_of_mem h), List.getElem_idxOf]

theorem idxOf_of_getElem? {l : List Int} (hn : l.Nodup) {k : Nat} {a : Int} (h : l[k]? = some a) :
    l.idxOf a = k := by
  obtain ⟨hk, rfl⟩ := List.getElem?_eq_some_iff.1 h
  exact hn.idxOf_getElem k hk

theorem mem_of_getElem?_eq_some {α : Type} {l : List α} {k : Nat} {a : α} (h : l[k]? = some a) : a ∈ l :=
  List.mem_of_getElem? h

theorem lt_length_of_getElem? {α : Type} {l : List α} {k : Nat} {a : α} (h : l[k]? = some a) : k < l.length :=
  (List.getElem?_eq_some_iff.1 h).1

/-! ## coloured graphs as bliss sees them -/

namespace IGraph

/-- `{i, j}` is an edge of `ig` (vertex indices). Edges are undirected: the orientation of a pair and
its position / multiplicity in the `edges` list do not matter. -/
def Adj (ig : IGraph) (i j : Nat) : Prop :=
  ((i : Int), (j : Int)) ∈ ig.edges ∨ ((j : Int), (i : Int)) ∈ ig.edges

theorem Adj.symm {ig : IGraph} {i j : Nat} (h : ig.Adj i j) : ig.Adj j i := Or.symm h

theorem adj_comm (ig : IGraph) (i j : Nat) : ig.Adj i j ↔ ig.Adj j i := ⟨Adj.symm, Adj.symm⟩

/-- a coloured graph that may be handed to bliss: vertex names are distinct, there is one colour per
vertex, and every edge joins two existing vertex indices. Nothing is required of the per-vertex
attribute dicts, of the names themselves (arbitrary distinct integers) or of the edge order. -/
structure Valid (ig : IGraph) (c : List Val) : Prop where
  names_nodup : ig.names.Nodup
  colours_len : c.length = ig.names.length
  edges_valid : ∀ e ∈ ig.edges, 0 ≤ e.1 ∧ e.1 < ig.names.length ∧ 0 ≤ e.2 ∧ e.2 < ig.names.length

/-- `σ` (a map of vertex indices) is a colour-preserving isomorphism from `(ig₁, c₁)` onto `(ig₂, c₂)`:
same number of vertices, injective (hence bijective) on the indices, colour of `σ i` in `c₂` = colour
of `i` in `c₁`, and `{i, j}` is an edge of `ig₁` iff `{σ i, σ j}` is an edge of `ig₂`. Vertex names
and attribute dicts play no role. -/
structure ColourIso (σ : Nat → Nat) (ig₁ : IGraph) (c₁ : List Val) (ig₂ : IGraph) (c₂ : List Val) : Prop where
  card : ig₂.names.length = ig₁.names.length
  lt : ∀ i, i < ig₁.names.length → σ i < ig₂.names.length
  inj : ∀ i, i < ig₁.names.length → ∀ j, j < ig₁.names.length → σ i = σ j → i = j
  colour : ∀ i, i < ig₁.names.length → c₂[σ i]? = c₁[i]?
  edge : ∀ i, i < ig₁.names.length → ∀ j, j < ig₁.names.length → (ig₂.Adj (σ i) (σ j) ↔ ig₁.Adj i j)

end IGraph

namespace DepEnv

/-- the graph the code builds: `ig.permute_vertices(ig.canonical_permutation(color=c))` -/
def canonForm (env : DepEnv) (ig : IGraph) (c : List Val) : IGraph :=
  env.permuteVertices ig (env.canonicalPermutation ig c)

/-- canonical position of vertex index `i` of `ig`: the index at which its name is found among the
vertex names of the permuted graph (`none` if `i` is not a vertex index) -/
def canonPos (env : DepEnv) (ig : IGraph) (c : List Val) (i : Nat) : Option Nat :=
  (ig.names[i]?).map (fun a => (env.canonForm ig c).names.idxOf a)

end DepEnv

/-- **Assumed contract of bliss/igraph (V3).**
* `names_perm` (L1): applying the canonical permutation only reorders the vertices.
* `canonical` (L2): if two valid coloured graphs are colour-isomorphic at all, then matching their vertices
  by canonical position is a colour-preserving isomorphism: every index map `τ` that sends each vertex
  `i` of `ig₁` to a vertex of `ig₂` with the same canonical position is one.
The hypothesis of L2 mentions the colours and the undirected edge relation only — not the attribute
dicts, the vertex names, or the order / orientation / multiplicity of the edge list. -/
structure BlissLawful (env : DepEnv) : Prop where
  names_perm : ∀ (ig : IGraph) (c : List Val), ig.Valid c → (env.canonForm ig c).names.Perm ig.names
  canonical : ∀ (ig₁ : IGraph) (c₁ : List Val) (ig₂ : IGraph) (c₂ : List Val) (τ : Nat → Nat),
    ig₁.Valid c₁ → ig₂.Valid c₂ → (∃ σ, IGraph.ColourIso σ ig₁ c₁ ig₂ c₂) →
    (∀ i, i < ig₁.names.length →
      τ i < ig₂.names.length ∧ env.canonPos ig₂ c₂ (τ i) = env.canonPos ig₁ c₁ i) →
    IGraph.ColourIso τ ig₁ c₁ ig₂ c₂

namespace BlissLawful
variable {env : DepEnv}

theorem canonForm_nodup (hb : BlissLawful env) {ig : IGraph} {c : List Val} (hv : ig.Valid c) :
    (env.canonForm ig c).names.Nodup :=
  (hb.names_perm ig c hv).nodup_iff.2 hv.names_nodup

theorem canonForm_length (hb : BlissLawful env) {ig : IGraph} {c : List Val} (hv : ig.Valid c) :
    (env.canonForm ig c).names.length = ig.names.length :=
  (hb.names_perm ig c hv).length_eq

/-- **The canonical forms of colour-isomorphic graphs coincide as coloured graphs**: at every canonical
position `k` the two vertices found there (`a` in `ig₁`, `b` in `ig₂`, identified by name) have the same
colour, and the vertices at positions `k`, `l` are adjacent in `ig₂` iff they are in `ig₁`. -/
theorem canonForm_agree (hb : BlissLawful env) {ig₁ ig₂ : IGraph} {c₁ c₂ : List Val}
    (hv₁ : ig₁.Valid c₁) (hv₂ : ig₂.Valid c₂) (hiso : ∃ σ, IGraph.ColourIso σ ig₁ c₁ ig₂ c₂)
    {k : Nat} {a b : Int} (ha : (env.canonForm ig₁ c₁).names[k]? = some a)
    (hb' : (env.canonForm ig₂ c₂).names[k]? = some b) :
    c₂[ig₂.names.idxOf b]? = c₁[ig₁.names.idxOf a]? ∧
    ∀ {l : Nat} {a' b' : Int}, (env.canonForm ig₁ c₁).names[l]? = some a' →
      (env.canonForm ig₂ c₂).names[l]? = some b' →
      (ig₂.Adj (ig₂.names.idxOf b) (ig₂.names.idxOf b') ↔ ig₁.Adj (ig₁.names.idxOf a) (ig₁.names.idxOf a')) := by
  have p₁ := hb.names_perm ig₁ c₁ hv₁
  have p₂ := hb.names_perm ig₂ c₂ hv₂
  have n₁ := hb.canonForm_nodup hv₁
  have n₂ := hb.canonForm_nodup hv₂
  have hcard : ig₂.names.length = ig₁.names.length := by
    obtain ⟨σ, hσ⟩ := hiso; exact hσ.card
  -- the matching map
  let τ : Nat → Nat := fun i =>
    ig₂.names.idxOf (((env.canonForm ig₂ c₂).names[(env.canonForm ig₁ c₁).names.idxOf
      ((ig₁.names[i]?).getD 0)]?).getD 0)
  -- `τ` sends the index of the vertex at canonical position `l` in `ig₁` to that in `ig₂`
  have hτ : ∀ {l : Nat} {x y : Int}, (env.canonForm ig₁ c₁).names[l]? = some x →
      (env.canonForm ig₂ c₂).names[l]? = some y → τ (ig₁.names.idxOf x) = ig₂.names.idxOf y := by
    intro l x y hx hy
    have hx' : x ∈ ig₁.names := p₁.mem_iff.1 (List.mem_of_getElem? hx)
    show ig₂.names.idxOf _ = _
    rw [getElem?_idxOf_of_mem hx', Option.getD_some, idxOf_of_getElem? n₁ hx, hy, Option.getD_some]
  have hmatch : ∀ i, i < ig₁.names.length →
      τ i < ig₂.names.length ∧ env.canonPos ig₂ c₂ (τ i) = env.canonPos ig₁ c₁ i := by
    intro i hi
    have hx : ig₁.names[i]? = some ig₁.names[i] := List.getElem?_eq_getElem hi
    have hxm : ig₁.names[i] ∈ (env.canonForm ig₁ c₁).names := p₁.mem_iff.2 (List.getElem_mem hi)
    have hp := getElem?_idxOf_of_mem hxm
    have hplt : (env.canonForm ig₁ c₁).names.idxOf ig₁.names[i] < (env.canonForm ig₂ c₂).names.length := by
      rw [p₂.length_eq, hcard, ← p₁.length_eq]; exact List.idxOf_lt_length_of_mem hxm
    have hy := List.getElem?_eq_getElem hplt
    have hτi := hτ hp hy
    rw [hv₁.names_nodup.idxOf_getElem i hi] at hτi
    have hym : (env.canonForm ig₂ c₂).names[(env.canonForm ig₁ c₁).names.idxOf ig₁.names[i]] ∈ ig₂.names :=
      p₂.mem_iff.1 (List.getElem_mem hplt)
    refine ⟨by rw [hτi]; exact List.idxOf_lt_length_of_mem hym, ?_⟩
    unfold DepEnv.canonPos
    rw [hτi, getElem?_idxOf_of_mem hym, hx, Option.map_some, Option.map_some, idxOf_of_getElem? n₂ hy]
  have key := hb.canonical ig₁ c₁ ig₂ c₂ τ hv₁ hv₂ hiso hmatch
  have hlt : ∀ {l : Nat} {x : Int}, (env.canonForm ig₁ c₁).names[l]? = some x →
      ig₁.names.idxOf x < ig₁.names.length :=
    fun hx => List.idxOf_lt_length_of_mem (p₁.mem_iff.1 (List.mem_of_getElem? hx))
  refine ⟨?_, ?_⟩
  · have := key.colour _ (hlt ha)
    rwa [hτ ha hb'] at this
  · intro l a' b' ha' hb''
    have := key.edge _ (hlt ha) _ (hlt ha')
    rwa [hτ ha hb', hτ ha' hb''] at this

/-- the law only concerns the two bliss fields of the environment -/
theorem congr {env₂ : DepEnv} (hb : BlissLawful env) (hcp : env₂.canonicalPermutation = env.canonicalPermutation)
    (hpv : env₂.permuteVertices = env.permuteVertices) : BlissLawful env₂ := by
  have e : env₂.canonForm = env.canonForm := by
    funext ig c; unfold DepEnv.canonForm; rw [hcp, hpv]
  constructor
  · intro ig c hv; rw [e]; exact hb.names_perm ig c hv
  · intro ig₁ c₁ ig₂ c₂ τ hv₁ hv₂ hσ hτ
    apply hb.canonical ig₁ c₁ ig₂ c₂ τ hv₁ hv₂ hσ
    intro i hi
    have := hτ i hi
    unfold DepEnv.canonPos at this ⊢
    rw [e] at this
    exact this

end BlissLawful

/-! ## `Graph.from_networkx` on a well-formed graph -/

namespace IGraph
open Py.Graph

@[simp] theorem fromNetworkx_names (g : Graph) : (fromNetworkx g).names = g.nodeList := rfl

theorem fromNetworkx_edges (g : Graph) :
    (fromNetworkx g).edges =
      g.edges.map (fun e => (Int.ofNat (g.nodeList.idxOf e.1), Int.ofNat (g.nodeList.idxOf e.2))) := rfl

theorem vsAttr_length (g : Graph) (k : String) : ((fromNetworkx g).vsAttr k).length = g.nodeList.length := by
  simp [vsAttr, fromNetworkx, Dict.values, Graph.nodeList, Dict.keys]

/-- the colour vector lists, in node iteration order, the value of the attribute at each node -/
theorem vsAttr_getElem? {g : Graph} (hg : g.WF) (k : String) {i : Nat} {a : Int}
    (h : g.nodeList[i]? = some a) :
    ((fromNetworkx g).vsAttr k)[i]? = some ((g.attr a k).getD Val.none) := by
  unfold Graph.nodeList Dict.keys at h
  rw [List.getElem?_map] at h
  cases hp : g.node.items[i]? with
  | none => rw [hp] at h; cases h
  | some p =>
    rw [hp] at h
    simp only [Option.map_some, Option.some.injEq] at h
    have hmem : (a, p.2) ∈ g.node.items := by
      rw [← h]; exact List.mem_of_getElem? hp
    have hget : g.node.get? a = some p.2 := Dict.get?_of_mem_items hg.node_wf hmem
    simp only [vsAttr, fromNetworkx, Dict.values, List.getElem?_map, hp, Option.map_some, Graph.attr, hget,
      Option.bind_some]

theorem vsAttr_idxOf {g : Graph} (hg : g.WF) (k : String) {a : Int} (ha : a ∈ g.nodeList) :
    ((fromNetworkx g).vsAttr k)[g.nodeList.idxOf a]? = some ((g.attr a k).getD Val.none) :=
  vsAttr_getElem? hg k (getElem?_idxOf_of_mem ha)

theorem mem_fromNetworkx_edges {g : Graph} (hg : g.WF) (a b : Int) :
    (((g.nodeList.idxOf a : Nat) : Int), ((g.nodeList.idxOf b : Nat) : Int)) ∈ (fromNetworkx g).edges ↔
      (a, b) ∈ g.edges := by
  rw [fromNetworkx_edges, List.mem_map]
  constructor
  · rintro ⟨⟨u, v⟩, he, heq⟩
    have hv : v ∈ g.nbrs u := mem_edges_imp hg he
    have hvn : v ∈ g.nodeList := hg.nbr_mem u v hv
    have hun : u ∈ g.nodeList := hg.nbr_mem v u (hg.mem_nbrs_symm hv)
    simp only [Prod.mk.injEq, Int.ofNat_eq_natCast, Nat.cast_inj] at heq
    rw [(List.idxOf_inj hun).1 heq.1, (List.idxOf_inj hvn).1 heq.2] at he
    exact he
  · intro he
    exact ⟨(a, b), he, rfl⟩

/-- vertex indices are adjacent in the igraph iff the nodes are neighbours in the networkx graph -/
theorem adj_fromNetworkx {g : Graph} (hg : g.WF) (a b : Int) :
    (fromNetworkx g).Adj (g.nodeList.idxOf a) (g.nodeList.idxOf b) ↔ b ∈ g.nbrs a := by
  unfold Adj
  rw [mem_fromNetworkx_edges hg a b, mem_fromNetworkx_edges hg b a]
  constructor
  · rintro (h | h)
    · exact mem_edges_imp hg h
    · exact hg.mem_nbrs_symm (mem_edges_imp hg h)
  · intro h
    exact mem_edges_of_nbrs hg h

/-- the coloured graph handed to bliss by `assign_canonical_labels` is a valid input -/
theorem valid_fromNetworkx {g : Graph} (hg : g.WF) (k : String) :
    (fromNetworkx g).Valid ((fromNetworkx g).vsAttr k) where
  names_nodup := hg.nodup_nodeList
  colours_len := vsAttr_length g k
  edges_valid := by
    intro e he
    rw [fromNetworkx_edges, List.mem_map] at he
    obtain ⟨⟨u, v⟩, he, rfl⟩ := he
    have hv : v ∈ g.nbrs u := mem_edges_imp hg he
    have hvn : v ∈ g.nodeList := hg.nbr_mem u v hv
    have hun : u ∈ g.nodeList := hg.nbr_mem v u (hg.mem_nbrs_symm hv)
    have h1 := List.idxOf_lt_length_of_mem hun
    have h2 := List.idxOf_lt_length_of_mem hvn
    simp only [fromNetworkx_names, Int.ofNat_eq_natCast]
    omega

end IGraph

end Py
