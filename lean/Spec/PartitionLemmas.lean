/-
Spec.PartitionLemmas — lemmas about the Dict / networkx-Graph model needed by Contracts.Partition
(get?/set algebra of `Dict`, `Graph.addEdge`, `Graph.copy`, `Graph.setNodeAttrNamed` preserve the
representation invariant `Graph.WF` and act on the abstract view `attr` / `nbrs` as expected).
Code-independent. Everything lives in namespace `PartLemmas` so that the names cannot clash with
the general library Spec/GraphLemmas.lean (which was written concurrently and overlaps in part).
-/
import Spec.GraphView
set_option autoImplicit false
set_option linter.unusedSimpArgs false
set_option linter.unusedSectionVars false
set_option linter.unusedVariables false
open Py

/-! ## Local lemma library about the Dict / Graph model -/

namespace PartLemmas
namespace Dict
variable {κ ν : Type} [DecidableEq κ]

theorem lookup_eq_none_iff_not_mem (l : List (κ × ν)) (k : κ) :
    l.lookup k = Option.none ↔ k ∉ l.map Prod.fst := by
  induction l with
  | nil => simp
  | cons p l ih =>
    obtain ⟨a, b⟩ := p
    by_cases h : k = a
    · subst h; simp [List.lookup_cons]
    · have : (k == a) = false := by simpa using h
      simp [List.lookup_cons, this, ih, h]

theorem get?_eq_none_iff (d : Dict κ ν) (k : κ) : d.get? k = Option.none ↔ k ∉ d.keys :=
  lookup_eq_none_iff_not_mem d.items k

theorem get?_isSome_iff (d : Dict κ ν) (k : κ) : (d.get? k).isSome ↔ k ∈ d.keys := by
  rw [← not_iff_not, ← get?_eq_none_iff]; simp

theorem contains_iff (d : Dict κ ν) (k : κ) : d.contains k = true ↔ k ∈ d.keys :=
  get?_isSome_iff d k

theorem lookup_mem (l : List (κ × ν)) (k : κ) (v : ν) (h : l.lookup k = some v) : (k, v) ∈ l := by
  induction l with
  | nil => simp at h
  | cons p l ih =>
    obtain ⟨a, b⟩ := p
    by_cases hk : k = a
    · subst hk; simp [List.lookup_cons] at h; simp [h]
    · have : (k == a) = false := by simpa using hk
      simp [List.lookup_cons, this] at h
      exact List.mem_cons_of_mem _ (ih h)

theorem get?_mem (d : Dict κ ν) (k : κ) (v : ν) (h : d.get? k = some v) : (k, v) ∈ d.items :=
  lookup_mem d.items k v h

theorem lookup_of_mem_nodup (l : List (κ × ν)) (k : κ) (v : ν) (hn : (l.map Prod.fst).Nodup)
    (h : (k, v) ∈ l) : l.lookup k = some v := by
  induction l with
  | nil => simp at h
  | cons p l ih =>
    obtain ⟨a, b⟩ := p
    simp only [List.map_cons, List.nodup_cons] at hn
    rcases List.mem_cons.1 h with h' | h'
    · cases h'; simp [List.lookup_cons]
    · have hk : k ≠ a := by
        rintro rfl; exact hn.1 (List.mem_map.2 ⟨(k, v), h', rfl⟩)
      have : (k == a) = false := by simpa using hk
      simp [List.lookup_cons, this, ih hn.2 h']

theorem get?_of_mem (d : Dict κ ν) (hd : d.WF) (k : κ) (v : ν) (h : (k, v) ∈ d.items) :
    d.get? k = some v := lookup_of_mem_nodup d.items k v hd h

theorem lookup_map_replace (l : List (κ × ν)) (k k' : κ) (v : ν) (hk : k ∈ l.map Prod.fst) :
    (l.map (fun p => if p.1 = k then (k, v) else p)).lookup k' =
      if k' = k then some v else l.lookup k' := by
  induction l with
  | nil => simp at hk
  | cons p l ih =>
    obtain ⟨a, b⟩ := p
    by_cases ha : a = k
    · subst ha
      by_cases hk' : k' = a
      · subst hk'; simp [List.lookup_cons]
      · have h1 : (k' == a) = false := by simpa using hk'
        simp only [List.map_cons, if_true, List.lookup_cons, h1, hk', if_false]
        by_cases hm : a ∈ l.map Prod.fst
        · simpa [hk'] using ih hm
        · have : l.map (fun p => if p.1 = a then (a, v) else p) = l := by
            conv_rhs => rw [← List.map_id l]
            apply List.map_congr_left
            intro p hp
            have : p.1 ≠ a := by rintro rfl; exact hm (List.mem_map_of_mem hp)
            simp [this]
          rw [this]
    · have hm : k ∈ l.map Prod.fst := by
        simp only [List.map_cons, List.mem_cons] at hk
        rcases hk with hk | hk
        · exact absurd hk.symm ha
        · exact hk
      simp only [List.map_cons, ha, if_false, List.lookup_cons]
      by_cases hk' : k' = a
      · subst hk'
        have : k' ≠ k := ha
        simp [this]
      · have h1 : (k' == a) = false := by simpa using hk'
        simp only [h1]
        exact ih hm

theorem get?_set (d : Dict κ ν) (k k' : κ) (v : ν) :
    (d.set k v).get? k' = if k' = k then some v else d.get? k' := by
  unfold Dict.set
  by_cases hc : d.contains k = true
  · rw [if_pos hc]
    exact lookup_map_replace d.items k k' v ((contains_iff d k).1 hc)
  · rw [if_neg hc]
    have hn : d.get? k = Option.none := by
      rw [get?_eq_none_iff]; exact fun h => hc ((contains_iff d k).2 h)
    simp only [Dict.get?, List.lookup_append]
    by_cases hk' : k' = k
    · subst hk'
      simp only [Dict.get?] at hn
      simp [hn, List.lookup_cons]
    · have h1 : (k' == k) = false := by simpa using hk'
      simp [List.lookup_cons, h1, hk']

theorem keys_set (d : Dict κ ν) (k : κ) (v : ν) :
    (d.set k v).keys = if k ∈ d.keys then d.keys else d.keys ++ [k] := by
  unfold Dict.set
  by_cases hc : d.contains k = true
  · rw [if_pos hc, if_pos ((contains_iff d k).1 hc)]
    simp only [Dict.keys, List.map_map]
    apply List.map_congr_left
    intro p _
    by_cases hp : p.1 = k <;> simp [hp]
  · rw [if_neg hc, if_neg (fun h => hc ((contains_iff d k).2 h))]
    simp [Dict.keys]

theorem WF.set {d : Dict κ ν} (hd : d.WF) (k : κ) (v : ν) : (d.set k v).WF := by
  unfold Dict.WF at *
  rw [keys_set]
  split
  · exact hd
  · rename_i h
    exact List.Nodup.append hd (by simp) (by simpa using h)

theorem WF.empty : (Dict.empty : Dict κ ν).WF := by simp [Dict.WF, Dict.empty, Dict.keys]

theorem get?_empty (k : κ) : (Dict.empty : Dict κ ν).get? k = Option.none := rfl

theorem WF.foldl_set {d : Dict κ ν} (hd : d.WF) (l : List (κ × ν)) :
    (l.foldl (fun d p => d.set p.1 p.2) d).WF := by
  induction l generalizing d with
  | nil => exact hd
  | cons p l ih => exact ih (WF.set hd _ _)

theorem WF.update {d : Dict κ ν} (hd : d.WF) (e : Dict κ ν) : (d.update e).WF := WF.foldl_set hd _

/-- building a dict from pairs with distinct keys keeps the pairs as they are -/
theorem foldl_set_items (d : Dict κ ν) (l : List (κ × ν)) (hn : (l.map Prod.fst).Nodup)
    (hdis : ∀ k ∈ l.map Prod.fst, k ∉ d.keys) :
    (l.foldl (fun d p => d.set p.1 p.2) d).items = d.items ++ l := by
  induction l generalizing d with
  | nil => simp
  | cons p l ih =>
    simp only [List.map_cons, List.nodup_cons] at hn
    have hp : p.1 ∉ d.keys := hdis p.1 (by simp)
    have hset : (d.set p.1 p.2).items = d.items ++ [p] := by
      unfold Dict.set
      rw [if_neg (fun h => hp ((contains_iff d p.1).1 h))]
    rw [List.foldl_cons, ih _ hn.2, hset]
    · simp
    · intro k hk
      have hk' : k ∉ d.keys := hdis k (by simp [hk])
      have : k ≠ p.1 := by rintro rfl; exact hn.1 hk
      simp only [Dict.keys, hset, List.map_append, List.mem_append, not_or]
      exact ⟨hk', by simpa using this⟩

theorem ofPairs_items (l : List (κ × ν)) (hn : (l.map Prod.fst).Nodup) : (Dict.ofPairs l).items = l := by
  unfold Dict.ofPairs
  rw [foldl_set_items _ _ hn (by simp [Dict.empty, Dict.keys])]
  simp [Dict.empty]

end Dict
end PartLemmas

namespace PartLemmas
namespace Dict
variable {κ ν : Type} [DecidableEq κ]

theorem set_items_of_not_mem (d : Dict κ ν) (k : κ) (v : ν) (h : k ∉ d.keys) :
    (d.set k v).items = d.items ++ [(k, v)] := by
  unfold Dict.set
  rw [if_neg (fun hc => h ((contains_iff d k).1 hc))]

theorem keys_set_of_mem (d : Dict κ ν) (k : κ) (v : ν) (h : k ∈ d.keys) : (d.set k v).keys = d.keys := by
  rw [keys_set, if_pos h]

theorem getD_empty_get? (o : Option (Dict κ ν)) (y : κ) :
    (o.getD Dict.empty).get? y = o.bind (·.get? y) := by
  cases o <;> rfl

end Dict

namespace Graph
open Py.Graph

theorem mem_nodeList_iff (g : Graph) (n : Int) : n ∈ g.nodeList ↔ (g.node.get? n).isSome :=
  (Dict.get?_isSome_iff g.node n).symm

theorem hasNode_iff (g : Graph) (n : Int) : g.hasNode n = true ↔ n ∈ g.nodeList :=
  Dict.contains_iff g.node n

theorem mem_nbrs_iff (g : Graph) (x y : Int) : y ∈ g.nbrs x ↔ (g.edgeAttrs x y).isSome := by
  unfold nbrs edgeAttrs
  cases h : g.adj.get? x with
  | none => simp
  | some d => simpa using (Dict.get?_isSome_iff d y).symm

theorem nbrs_nodup {g : Graph} (hw : g.WF) (x : Int) : (g.nbrs x).Nodup := by
  unfold nbrs
  cases h : g.adj.get? x with
  | none => simp
  | some d => simpa [Dict.WF] using hw.nbr_wf x d h

theorem mem_nbrs_symm {g : Graph} (hw : g.WF) (x y : Int) : y ∈ g.nbrs x ↔ x ∈ g.nbrs y := by
  rw [mem_nbrs_iff, mem_nbrs_iff]
  constructor <;> intro h
  · obtain ⟨a, ha⟩ := Option.isSome_iff_exists.1 h
    rw [hw.symm _ _ _ ha]; rfl
  · obtain ⟨a, ha⟩ := Option.isSome_iff_exists.1 h
    rw [hw.symm _ _ _ ha]; rfl

theorem adj_get?_isSome {g : Graph} (hw : g.WF) (x : Int) : (g.adj.get? x).isSome ↔ x ∈ g.nodeList := by
  rw [Dict.get?_isSome_iff, hw.adj_keys]; rfl

/-! ### addEdge between existing nodes -/

/-- the attribute dict stored on the edge by `addEdge` -/
def aeD (g : Graph) (u v : Int) (a : Attrs) : Attrs := ((g.edgeAttrs u v).getD Dict.empty).update a

theorem addEdge_eq (g : Graph) (u v : Int) (a : Attrs) (hu : u ∈ g.nodeList) (hv : v ∈ g.nodeList) :
    g.addEdge u v a =
      { node := g.node,
        adj := (g.adj.set u (((g.adj.get? u).getD Dict.empty).set v (aeD g u v a))).set v
          ((((g.adj.set u (((g.adj.get? u).getD Dict.empty).set v (aeD g u v a))).get? v).getD Dict.empty).set u
            (aeD g u v a)) } := by
  have hu' := (hasNode_iff g u).2 hu
  have hv' := (hasNode_iff g v).2 hv
  unfold addEdge
  simp only [hu', hv', if_true]
  rfl

theorem addEdge_node (g : Graph) (u v : Int) (a : Attrs) (hu : u ∈ g.nodeList) (hv : v ∈ g.nodeList) :
    (g.addEdge u v a).node = g.node := by
  rw [addEdge_eq g u v a hu hv]

theorem addEdge_adj_get? (g : Graph) (u v : Int) (a : Attrs) (hu : u ∈ g.nodeList) (hv : v ∈ g.nodeList)
    (x : Int) :
    (g.addEdge u v a).adj.get? x =
      if x = v then
        some (((if v = u then some (((g.adj.get? u).getD Dict.empty).set v (aeD g u v a)) else g.adj.get? v).getD
          Dict.empty).set u (aeD g u v a))
      else if x = u then some (((g.adj.get? u).getD Dict.empty).set v (aeD g u v a))
      else g.adj.get? x := by
  rw [addEdge_eq g u v a hu hv]
  simp only [Dict.get?_set]

theorem edgeAttrs_addEdge (g : Graph) (u v : Int) (a : Attrs) (hu : u ∈ g.nodeList) (hv : v ∈ g.nodeList)
    (x y : Int) :
    (g.addEdge u v a).edgeAttrs x y =
      if (x = u ∧ y = v) ∨ (x = v ∧ y = u) then some (aeD g u v a) else g.edgeAttrs x y := by
  have key : ∀ (o : Option (Dict Int Attrs)) (k : Int) (d : Attrs) (y : Int),
      ((o.getD Dict.empty).set k d).get? y = if y = k then some d else o.bind (·.get? y) := by
    intro o k d y; rw [Dict.get?_set, Dict.getD_empty_get?]
  show ((g.addEdge u v a).adj.get? x).bind (·.get? y) = _
  rw [addEdge_adj_get? g u v a hu hv]
  by_cases hxv : x = v
  · subst hxv
    simp only [if_true, Option.bind_some, key]
    by_cases hyu : y = u
    · subst hyu; simp
    · simp only [hyu, if_false, and_false, false_or, or_false]
      by_cases hxu : x = u
      · subst hxu
        simp only [if_true, Option.bind_some, key, hyu, if_false]
        rfl
      · simp only [hxu, if_false, false_and]
        rfl
  · simp only [hxv, if_false, false_and, or_false]
    by_cases hxu : x = u
    · subst hxu
      simp only [if_true, Option.bind_some, key, true_and]
      rfl
    · simp only [hxu, if_false, false_and]
      rfl

theorem addEdge_adj_keys (g : Graph) (hw : g.WF) (u v : Int) (a : Attrs) (hu : u ∈ g.nodeList)
    (hv : v ∈ g.nodeList) : (g.addEdge u v a).adj.keys = g.adj.keys := by
  rw [addEdge_eq g u v a hu hv]
  have hu' : u ∈ g.adj.keys := by rw [hw.adj_keys]; exact hu
  have hv' : v ∈ g.adj.keys := by rw [hw.adj_keys]; exact hv
  simp only
  rw [Dict.keys_set_of_mem, Dict.keys_set_of_mem _ _ _ hu']
  rw [Dict.keys_set_of_mem _ _ _ hu']; exact hv'

theorem aeD_wf {g : Graph} (hw : g.WF) (u v : Int) {a : Attrs} : (aeD g u v a).WF := by
  unfold aeD
  apply Dict.WF.update
  cases h : g.edgeAttrs u v with
  | none => exact Dict.WF.empty
  | some d => exact hw.eattrs_wf u v d h

theorem addEdge_wf {g : Graph} (hw : g.WF) (u v : Int) (a : Attrs) (hu : u ∈ g.nodeList)
    (hv : v ∈ g.nodeList) : (g.addEdge u v a).WF := by
  have hnode := addEdge_node g u v a hu hv
  have hopt : ∀ x, (g.adj.get? x).getD Dict.empty |>.WF := by
    intro x
    cases h : g.adj.get? x with
    | none => exact Dict.WF.empty
    | some d => exact hw.nbr_wf x d h
  refine ⟨?_, ?_, ?_, ?_, ?_, ?_, ?_, ?_⟩
  · rw [hnode]; exact hw.node_wf
  · unfold Dict.WF; rw [addEdge_adj_keys g hw u v a hu hv]; exact hw.adj_wf
  · rw [addEdge_adj_keys g hw u v a hu hv, hnode]; exact hw.adj_keys
  · rw [hnode]; exact hw.attrs_wf
  · intro x d hd
    rw [addEdge_adj_get? g u v a hu hv] at hd
    split at hd
    · cases hd
      apply Dict.WF.set
      split
      · exact Dict.WF.set (hopt u) _ _
      · exact hopt v
    · split at hd
      · cases hd; exact Dict.WF.set (hopt u) _ _
      · exact hw.nbr_wf x d hd
  · intro x y hy
    rw [mem_nbrs_iff, edgeAttrs_addEdge g u v a hu hv] at hy
    show y ∈ (g.addEdge u v a).node.keys
    rw [hnode]
    split at hy
    · rename_i h
      rcases h with ⟨_, rfl⟩ | ⟨_, rfl⟩
      · exact hv
      · exact hu
    · exact hw.nbr_mem x y ((mem_nbrs_iff g x y).2 hy)
  · intro x y b hb
    rw [edgeAttrs_addEdge g u v a hu hv] at hb ⊢
    by_cases h : (x = u ∧ y = v) ∨ (x = v ∧ y = u)
    · have h' : (y = u ∧ x = v) ∨ (y = v ∧ x = u) := by tauto
      rw [if_pos h] at hb; rw [if_pos h']; exact hb
    · have h' : ¬ ((y = u ∧ x = v) ∨ (y = v ∧ x = u)) := by tauto
      rw [if_neg h] at hb; rw [if_neg h']; exact hw.symm x y b hb
  · intro x y b hb
    rw [edgeAttrs_addEdge g u v a hu hv] at hb
    split at hb
    · cases hb; exact aeD_wf hw u v
    · exact hw.eattrs_wf x y b hb

theorem mem_nbrs_addEdge (g : Graph) (u v : Int) (a : Attrs) (hu : u ∈ g.nodeList) (hv : v ∈ g.nodeList)
    (x y : Int) :
    y ∈ (g.addEdge u v a).nbrs x ↔ y ∈ g.nbrs x ∨ (x = u ∧ y = v) ∨ (x = v ∧ y = u) := by
  rw [mem_nbrs_iff, mem_nbrs_iff, edgeAttrs_addEdge g u v a hu hv]
  by_cases h : (x = u ∧ y = v) ∨ (x = v ∧ y = u)
  · simp [h]
  · simp [h]

theorem foldl_addEdge {g : Graph} (hw : g.WF) (es : List (Int × Int × Attrs))
    (hes : ∀ e ∈ es, e.1 ∈ g.nodeList ∧ e.2.1 ∈ g.nodeList) :
    (es.foldl (fun h e => h.addEdge e.1 e.2.1 e.2.2) g).WF ∧
    (es.foldl (fun h e => h.addEdge e.1 e.2.1 e.2.2) g).node = g.node ∧
    ∀ x y, y ∈ (es.foldl (fun h e => h.addEdge e.1 e.2.1 e.2.2) g).nbrs x ↔
      y ∈ g.nbrs x ∨ ∃ a, (x, y, a) ∈ es ∨ (y, x, a) ∈ es := by
  induction es generalizing g with
  | nil => simp [hw]
  | cons e es ih =>
    obtain ⟨hu, hv⟩ := hes e (by simp)
    have hw1 := addEdge_wf hw e.1 e.2.1 e.2.2 hu hv
    have hn1 := addEdge_node g e.1 e.2.1 e.2.2 hu hv
    have hes1 : ∀ e' ∈ es, e'.1 ∈ (g.addEdge e.1 e.2.1 e.2.2).nodeList ∧
        e'.2.1 ∈ (g.addEdge e.1 e.2.1 e.2.2).nodeList := by
      intro e' he'
      simp only [nodeList, hn1]
      exact hes e' (by simp [he'])
    obtain ⟨h1, h2, h3⟩ := ih hw1 hes1
    refine ⟨h1, h2.trans hn1, ?_⟩
    intro x y
    rw [List.foldl_cons, h3, mem_nbrs_addEdge g _ _ _ hu hv]
    obtain ⟨e1, e2, e3⟩ := e
    simp only [List.mem_cons, Prod.mk.injEq]
    constructor
    · rintro ((h | h | h) | ⟨a, h | h⟩)
      · exact Or.inl h
      · exact Or.inr ⟨e3, Or.inl (Or.inl ⟨h.1, h.2, rfl⟩)⟩
      · exact Or.inr ⟨e3, Or.inr (Or.inl ⟨h.2, h.1, rfl⟩)⟩
      · exact Or.inr ⟨a, Or.inl (Or.inr h)⟩
      · exact Or.inr ⟨a, Or.inr (Or.inr h)⟩
    · rintro (h | ⟨a, (h | h) | (h | h)⟩)
      · exact Or.inl (Or.inl h)
      · exact Or.inl (Or.inr (Or.inl ⟨h.1, h.2.1⟩))
      · exact Or.inr ⟨a, Or.inl h⟩
      · exact Or.inl (Or.inr (Or.inr ⟨h.2.1, h.1⟩))
      · exact Or.inr ⟨a, Or.inr h⟩

end Graph
end PartLemmas

namespace PartLemmas
namespace Graph
open Py.Graph

/-! ### `Graph.copy` -/

theorem addNode_new (h : Graph) (n : Int) (a : Attrs) (h1 : n ∉ h.node.keys) (h2 : n ∉ h.adj.keys) :
    (h.addNode n a).node.items = h.node.items ++ [(n, a)] ∧
    (h.addNode n a).adj.items = h.adj.items ++ [(n, Dict.empty)] := by
  unfold addNode
  rw [(Dict.get?_eq_none_iff h.node n).2 h1]
  exact ⟨Dict.set_items_of_not_mem _ _ _ h1, Dict.set_items_of_not_mem _ _ _ h2⟩

theorem foldl_addNode (h : Graph) (l : List (Int × Attrs)) (hn : (l.map Prod.fst).Nodup)
    (hdis : ∀ k ∈ l.map Prod.fst, k ∉ h.node.keys ∧ k ∉ h.adj.keys) :
    (l.foldl (fun h (p : Int × Attrs) => h.addNode p.1 p.2) h).node.items = h.node.items ++ l ∧
    (l.foldl (fun h (p : Int × Attrs) => h.addNode p.1 p.2) h).adj.items =
      h.adj.items ++ l.map (fun p => (p.1, Dict.empty)) := by
  induction l generalizing h with
  | nil => simp
  | cons p l ih =>
    simp only [List.map_cons, List.nodup_cons] at hn
    obtain ⟨hp1, hp2⟩ := hdis p.1 (by simp)
    obtain ⟨e1, e2⟩ := addNode_new h p.1 p.2 hp1 hp2
    have hdis' : ∀ k ∈ l.map Prod.fst, k ∉ (h.addNode p.1 p.2).node.keys ∧ k ∉ (h.addNode p.1 p.2).adj.keys := by
      intro k hk
      obtain ⟨hk1, hk2⟩ := hdis k (by simp [hk])
      have : k ≠ p.1 := by rintro rfl; exact hn.1 hk
      simp only [Dict.keys, e1, e2, List.map_append, List.mem_append, not_or]
      exact ⟨⟨hk1, by simpa using this⟩, ⟨hk2, by simpa using this⟩⟩
    obtain ⟨i1, i2⟩ := ih (h.addNode p.1 p.2) hn.2 hdis'
    rw [List.foldl_cons, i1, i2, e1, e2]
    simp

/-- the graph after the node phase of `copy` -/
def copyNodes (g : Graph) : Graph :=
  g.node.items.foldl (fun h (p : Int × Attrs) => h.addNode p.1 p.2) Graph.empty

/-- all directed adjacency entries in iteration order -/
def dirEdges (g : Graph) : List (Int × Int × Attrs) :=
  g.adj.items.flatMap (fun p => p.2.items.map (fun q => (p.1, q.1, q.2)))

theorem copy_eq (g : Graph) :
    g.copy = (dirEdges g).foldl (fun h e => h.addEdge e.1 e.2.1 e.2.2) (copyNodes g) := by
  unfold copy dirEdges copyNodes
  rw [List.foldl_flatMap]
  simp only [List.foldl_map]

theorem copyNodes_node {g : Graph} (hw : g.WF) : (copyNodes g).node = g.node := by
  have := (foldl_addNode Graph.empty g.node.items hw.node_wf (by simp [Graph.empty, Dict.empty, Dict.keys])).1
  unfold copyNodes
  cases hh : (g.node.items.foldl (fun h (p : Int × Attrs) => h.addNode p.1 p.2) Graph.empty).node with
  | mk items =>
    rw [hh] at this
    simp only [Graph.empty, Dict.empty, List.nil_append] at this
    cases hg : g.node with
    | mk gi => rw [hg] at this; simp [this]

theorem copyNodes_adj {g : Graph} (hw : g.WF) :
    (copyNodes g).adj = ⟨g.node.items.map (fun p => (p.1, Dict.empty))⟩ := by
  have := (foldl_addNode Graph.empty g.node.items hw.node_wf (by simp [Graph.empty, Dict.empty, Dict.keys])).2
  unfold copyNodes
  cases hh : (g.node.items.foldl (fun h (p : Int × Attrs) => h.addNode p.1 p.2) Graph.empty).adj with
  | mk items =>
    rw [hh] at this
    simp only [Graph.empty, List.nil_append] at this
    rw [this]; rfl

theorem copyNodes_adj_get? {g : Graph} (hw : g.WF) (x : Int) (d : Dict Int Attrs)
    (h : (copyNodes g).adj.get? x = some d) : d = Dict.empty := by
  rw [copyNodes_adj hw] at h
  have := Dict.get?_mem _ _ _ h
  simp only [List.mem_map] at this
  obtain ⟨p, _, hp⟩ := this
  exact (Prod.mk.inj hp).2.symm

theorem copyNodes_edgeAttrs {g : Graph} (hw : g.WF) (x y : Int) : (copyNodes g).edgeAttrs x y = Option.none := by
  unfold edgeAttrs
  cases h : (copyNodes g).adj.get? x with
  | none => rfl
  | some d => rw [copyNodes_adj_get? hw x d h]; rfl

theorem copyNodes_wf {g : Graph} (hw : g.WF) : (copyNodes g).WF := by
  have hk : (copyNodes g).adj.keys = g.node.keys := by
    rw [copyNodes_adj hw]; simp [Dict.keys]
  refine ⟨?_, ?_, ?_, ?_, ?_, ?_, ?_, ?_⟩
  · rw [copyNodes_node hw]; exact hw.node_wf
  · unfold Dict.WF; rw [hk]; exact hw.node_wf
  · rw [hk, copyNodes_node hw]
  · rw [copyNodes_node hw]; exact hw.attrs_wf
  · intro u d hd; rw [copyNodes_adj_get? hw u d hd]; exact Dict.WF.empty
  · intro u v hv
    rw [mem_nbrs_iff, copyNodes_edgeAttrs hw] at hv; simp at hv
  · intro u v a ha; rw [copyNodes_edgeAttrs hw] at ha; cases ha
  · intro u v a ha; rw [copyNodes_edgeAttrs hw] at ha; cases ha

theorem mem_dirEdges {g : Graph} (hw : g.WF) (x y : Int) (a : Attrs) :
    (x, y, a) ∈ dirEdges g ↔ g.edgeAttrs x y = some a := by
  unfold dirEdges edgeAttrs
  simp only [List.mem_flatMap, List.mem_map, Prod.mk.injEq]
  constructor
  · rintro ⟨p, hp, q, hq, rfl, rfl, rfl⟩
    have h1 : g.adj.get? p.1 = some p.2 := Dict.get?_of_mem _ hw.adj_wf _ _ hp
    rw [h1]
    exact Dict.get?_of_mem _ (hw.nbr_wf _ _ h1) _ _ hq
  · intro h
    cases h1 : g.adj.get? x with
    | none => rw [h1] at h; cases h
    | some d =>
      rw [h1] at h
      exact ⟨(x, d), Dict.get?_mem _ _ _ h1, (y, a), Dict.get?_mem _ _ _ h, rfl, rfl, rfl⟩

theorem copy_spec {g : Graph} (hw : g.WF) :
    g.copy.WF ∧ g.copy.node = g.node ∧ ∀ x y, y ∈ g.copy.nbrs x ↔ y ∈ g.nbrs x := by
  have hcw := copyNodes_wf hw
  have hcn := copyNodes_node hw
  have hes : ∀ e ∈ dirEdges g, e.1 ∈ (copyNodes g).nodeList ∧ e.2.1 ∈ (copyNodes g).nodeList := by
    rintro ⟨x, y, a⟩ he
    simp only [nodeList, hcn]
    have he' := (mem_dirEdges hw x y a).1 he
    have hy : y ∈ g.nbrs x := by rw [mem_nbrs_iff, he']; rfl
    have hx : x ∈ g.nbrs y := (mem_nbrs_symm hw x y).1 hy
    exact ⟨hw.nbr_mem y x hx, hw.nbr_mem x y hy⟩
  obtain ⟨h1, h2, h3⟩ := foldl_addEdge hcw (dirEdges g) hes
  rw [copy_eq]
  refine ⟨h1, h2.trans hcn, ?_⟩
  intro x y
  rw [h3]
  have h0 : y ∉ (copyNodes g).nbrs x := by
    rw [mem_nbrs_iff, copyNodes_edgeAttrs hw]; simp
  simp only [h0, false_or, mem_dirEdges hw]
  constructor
  · rintro ⟨a, h | h⟩
    · rw [mem_nbrs_iff, h]; rfl
    · rw [mem_nbrs_symm hw, mem_nbrs_iff, h]; rfl
  · intro h
    obtain ⟨a, ha⟩ := Option.isSome_iff_exists.1 ((mem_nbrs_iff g x y).1 h)
    exact ⟨a, Or.inl ha⟩

theorem copy_wf {g : Graph} (hw : g.WF) : g.copy.WF := (copy_spec hw).1
theorem copy_node {g : Graph} (hw : g.WF) : g.copy.node = g.node := (copy_spec hw).2.1
theorem copy_nbrs_perm {g : Graph} (hw : g.WF) (x : Int) : (g.copy.nbrs x).Perm (g.nbrs x) :=
  (List.perm_ext_iff_of_nodup (nbrs_nodup (copy_wf hw) x) (nbrs_nodup hw x)).2 (fun y => (copy_spec hw).2.2 x y)
theorem copy_attr {g : Graph} (hw : g.WF) (x : Int) (k : String) : g.copy.attr x k = g.attr x k := by
  unfold attr; rw [copy_node hw]
theorem copy_nodeList {g : Graph} (hw : g.WF) : g.copy.nodeList = g.nodeList := by
  unfold nodeList; rw [copy_node hw]

/-! ### `setNodeAttrNamed` -/

/-- one step of `nx.set_node_attributes(G, {n: v}, name)` -/
def setAttr1 (g : Graph) (n : Int) (name : String) (v : Val) : Graph :=
  match g.node.get? n with
  | some a => { g with node := g.node.set n (a.set name v) }
  | Option.none => g

theorem setNodeAttrNamed_eq (g : Graph) (values : Dict Int Val) (name : String) :
    g.setNodeAttrNamed values name = values.items.foldl (fun g p => setAttr1 g p.1 name p.2) g := rfl

theorem setAttr1_adj (g : Graph) (n : Int) (name : String) (v : Val) : (setAttr1 g n name v).adj = g.adj := by
  unfold setAttr1; split <;> rfl

theorem setAttr1_node_keys (g : Graph) (n : Int) (name : String) (v : Val) :
    (setAttr1 g n name v).node.keys = g.node.keys := by
  unfold setAttr1
  split
  · rename_i a h
    exact Dict.keys_set_of_mem _ _ _ ((Dict.get?_isSome_iff _ _).1 (by rw [h]; rfl))
  · rfl

theorem setAttr1_attr (g : Graph) (n : Int) (name : String) (v : Val) (x : Int) (k : String) :
    (setAttr1 g n name v).attr x k =
      if x = n ∧ k = name ∧ n ∈ g.nodeList then some v else g.attr x k := by
  unfold setAttr1 attr
  cases h : g.node.get? n with
  | none =>
    have : n ∉ g.nodeList := by rw [mem_nodeList_iff, h]; simp
    simp [this]
  | some a =>
    have hn : n ∈ g.nodeList := by rw [mem_nodeList_iff, h]; rfl
    simp only [Dict.get?_set, hn, and_true]
    by_cases hx : x = n
    · subst hx
      simp only [if_true, Option.bind_some, Dict.get?_set, true_and, h]
    · simp [hx]

theorem setAttr1_wf {g : Graph} (hw : g.WF) (n : Int) (name : String) (v : Val) : (setAttr1 g n name v).WF := by
  have ha := setAttr1_adj g n name v
  have hk := setAttr1_node_keys g n name v
  have hnb : ∀ x, (setAttr1 g n name v).nbrs x = g.nbrs x := by intro x; unfold nbrs; rw [ha]
  have hea : ∀ x y, (setAttr1 g n name v).edgeAttrs x y = g.edgeAttrs x y := by
    intro x y; unfold edgeAttrs; rw [ha]
  refine ⟨?_, ?_, ?_, ?_, ?_, ?_, ?_, ?_⟩
  · unfold Dict.WF; rw [hk]; exact hw.node_wf
  · rw [ha]; exact hw.adj_wf
  · rw [ha, hk]; exact hw.adj_keys
  · intro x b hb
    unfold setAttr1 at hb
    cases h : g.node.get? n with
    | none => rw [h] at hb; exact hw.attrs_wf x b hb
    | some a =>
      rw [h] at hb
      simp only [Dict.get?_set] at hb
      split at hb
      · cases hb; exact Dict.WF.set (hw.attrs_wf n a h) _ _
      · exact hw.attrs_wf x b hb
  · rw [ha]; exact hw.nbr_wf
  · intro x y hy; rw [hnb] at hy; show y ∈ (setAttr1 g n name v).node.keys; rw [hk]; exact hw.nbr_mem x y hy
  · intro x y b; rw [hea, hea]; exact hw.symm x y b
  · intro x y b; rw [hea]; exact hw.eattrs_wf x y b

theorem setNodeAttrNamed_map_spec {g : Graph} (hw : g.WF) (l : List Int) (f : Int → Val) (name : String) :
    let r := g.setNodeAttrNamed ⟨l.map (fun n => (n, f n))⟩ name
    r.WF ∧ r.adj = g.adj ∧ r.nodeList = g.nodeList ∧
    ∀ x k, r.attr x k = if k = name ∧ x ∈ l ∧ x ∈ g.nodeList then some (f x) else g.attr x k := by
  induction l generalizing g with
  | nil => simp [setNodeAttrNamed, hw]
  | cons n l ih =>
    obtain ⟨h1, h2, h3, h4⟩ := ih (setAttr1_wf hw n name (f n))
    have hnl : (setAttr1 g n name (f n)).nodeList = g.nodeList := setAttr1_node_keys g n name (f n)
    refine ⟨h1, h2.trans (setAttr1_adj _ _ _ _), h3.trans hnl, ?_⟩
    intro x k
    have := h4 x k
    simp only [setNodeAttrNamed_eq, List.map_cons, List.foldl_cons] at this ⊢
    rw [this, setAttr1_attr, hnl]
    by_cases hk : k = name <;> by_cases hx : x = n <;> by_cases hxl : x ∈ l <;>
      by_cases hxg : x ∈ g.nodeList <;> simp_all

end Graph
end PartLemmas
