/-
Spec.Refactor — normal-form lemmas and the tactic `py_equiv` used by the equivalence rescue (vlib/baseline.py):
when a contract no longer type-checks because a function of /repo was restructured, the check tries to prove that the
newly extracted function equals the baseline text. The lemmas here relate equivalent Python idioms in the model.
-/
import PyModel.Ops
set_option autoImplicit false

namespace Py

-- `py_equiv [eqs]`: normalise both sides with the callee equalities and the idiom lemmas, then close by reflexivity
open Lean.Parser.Tactic in
syntax "py_equiv" "[" simpLemma,* "]" : tactic
macro_rules
  | `(tactic| py_equiv [$eqs,*]) =>
    `(tactic| first
        | (simp only [$eqs,*]; rfl)
        | (simp only [$eqs,*, Py.ok_bind, Py.error_bind, Py.pure_eq_ok, Py.throw_eq_error, pyIter_list, pyAdd_list, pyAdd_int, pyLen_list]; rfl)
        | (simp [$eqs,*]))

end Py
