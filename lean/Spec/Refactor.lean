/-
Spec.Refactor — normal-form lemmas and the tactic `py_equiv` used by the equivalence rescue (vlib/baseline.py):
when a contract no longer type-checks because a function of /repo was restructured, the check tries to prove that the
newly extracted function equals the baseline text. The lemmas here relate equivalent Python idioms in the model; all of them
are general facts about the PyModel operations (nothing mentions TUCAN), proved for all arguments.

Strategy of `py_equiv [callee equalities]` (both sides are normalised independently by one `simp only` set, `py_norm`):
 * monad laws (`bind_assoc`, `pure_bind`, conditionals distributed over `>>=`); `simp` itself inlines `let`/`have` and turns
   irrefutable tuple patterns into projections;
 * comprehensions (`listComp`) and `for` loops whose state is a list/string that every iteration only appends to
   (`forIn_append_only`, side condition proved by the simplifier) become `flatComp xs F` = concatenation of one chunk per element;
   a loop that only stores into a dict becomes `Dict.updatePairs` of a `flatComp` of pairs (`forIn_store_only`);
 * `"".join` is `List.flatten`; a list of strings that is only looked at through its concatenation is never built
   (`flatComp_bind_flatten`);
 * comprehensions with a pure body are `flatMap`/`map`; consecutive comprehensions fuse (`flatComp_pure`, `flatComp_flatMap`);
 * `range(len(xs))` + `xs[i]` is `enumerate(xs)`; `zip(range(len(xs)), xs)` and `zip(xs, range(len(xs)))` are `enumerate(xs)`
   (components swapped); an unused `enumerate` index disappears;
 * `startswith`/`endswith` are slice comparisons; `<=`, `>=`, `!=`, `>` are spelled with `<`, `==`, `not`; emptiness tests
   (`len(x) == 0`, `x == ""`, `x == []`, `n == 0`) are spelled with `truthy`; integer `+`/`*` are AC-normalised.
What normalisation leaves is attacked by a structural descent (`py_descend`): two loops over the same list with the same
state type whose bodies agree up to what happens at `break` versus after the loop (`forIn_bind_congr_cont`: `while True … break`
versus `while cond`, both extracted as fuel loops that consume fuel identically), or whose state tuples hold the same `let mut`
variables in another order (`forIn_bind_congr_map` with a permutation found by `py_loop_perm`: `for … else` versus an explicit flag).
-/
import PyModel.Ops
set_option autoImplicit false

namespace Py

/-! ### common normal form of comprehensions and append-only loops: `flatComp` -/

/-- the state carried by a loop step, whether it continues or breaks -/
def stepVal {σ : Type} : ForInStep σ → σ
  | .yield a => a
  | .done a => a
theorem stepVal_yield {σ} (a : σ) : stepVal (ForInStep.yield a) = a := rfl
theorem stepVal_done {σ} (a : σ) : stepVal (ForInStep.done a) = a := rfl

/-- every element contributes a (possibly empty) chunk; the chunks are concatenated -/
def flatComp {α β : Type} : List α → (α → M (List β)) → M (List β)
  | [], _ => pure []
  | x :: xs, F => do
    let y ← F x
    let ys ← flatComp xs F
    pure (y ++ ys)

/-- a comprehension is a `flatComp` with chunks of length ≤ 1 -/
theorem listComp_eq_flatComp {α β} (xs : List α) (f : α → M (Option β)) :
    listComp xs f = flatComp xs (fun x => f x >>= fun o => pure o.toList) := by
  induction xs with
  | nil => rfl
  | cons x xs ih =>
    simp only [listComp, flatComp, ih, bind_assoc, pure_bind]
    congr 1; funext o; congr 1; funext ys
    cases o <;> rfl

/-- a `for` loop whose state is a list (or a string) that every iteration only appends to is a `flatComp`.
The side condition says exactly that: running the body from `r` is running it from `[]` and appending. -/
theorem forIn_append_only {α β} (xs : List α) (acc : List β) (B : α → List β → M (ForInStep (List β)))
    (h : ∀ x r, B x r = B x [] >>= fun s => pure (ForInStep.yield (r ++ stepVal s))) :
    forIn xs acc B = flatComp xs (fun x => B x [] >>= fun s => pure (stepVal s)) >>= fun ys => pure (acc ++ ys) := by
  induction xs generalizing acc with
  | nil => simp [flatComp]
  | cons x xs ih =>
    rw [List.forIn_cons, h x acc]
    simp only [flatComp, bind_assoc, pure_bind, ih]
    congr 1; funext s; congr 1; funext ys
    simp

theorem flatComp_map_flatten {α γ} (xs : List α) (F : α → M (List (List γ))) :
    flatComp xs (fun x => F x >>= fun y => pure y.flatten) = flatComp xs F >>= fun ys => pure ys.flatten := by
  induction xs with
  | nil => rfl
  | cons x xs ih =>
    simp only [flatComp, ih, bind_assoc, pure_bind, List.flatten_append]

theorem flatten_map_singleton {γ} (l : List γ) : (l.map (fun c => [c])).flatten = l := by
  induction l with
  | nil => rfl
  | cons a l ih => simp [ih]

/-- deforestation: when the rest of the program looks at a list of chunks (e.g. strings) only through its
concatenation, concatenate per element -/
theorem flatComp_bind_flatten {α γ δ} (xs : List α) (F : α → M (List (List γ))) (K : List (List γ) → M δ)
    (h : ∀ ys, K ys = K (ys.flatten.map (fun c => [c]))) :
    flatComp xs F >>= K = flatComp xs (fun x => F x >>= fun y => pure y.flatten) >>= fun zs => K (zs.map (fun c => [c])) := by
  rw [flatComp_map_flatten, bind_assoc]
  congr 1; funext ys
  rw [pure_bind, ← h]

theorem join_nil_eq_flatten (l : List Str) : join [] l = l.flatten := by
  unfold join
  induction l with
  | nil => rfl
  | cons a l ih =>
    cases l with
    | nil => simp [List.intercalate]
    | cons b l =>
      simp only [List.intercalate, List.intersperse] at ih ⊢
      simp [ih]

/-! ### `flatComp` algebra: pure bodies, maps, fusion -/

theorem flatComp_nil {α β} (F : α → M (List β)) : flatComp [] F = pure [] := rfl
theorem flatComp_cons {α β} (x : α) (xs : List α) (F : α → M (List β)) :
    flatComp (x :: xs) F = F x >>= fun y => flatComp xs F >>= fun ys => pure (y ++ ys) := rfl

theorem flatComp_congr {α β} (xs : List α) (F G : α → M (List β)) (h : ∀ x ∈ xs, F x = G x) :
    flatComp xs F = flatComp xs G := by
  induction xs with
  | nil => rfl
  | cons x xs ih =>
    rw [flatComp_cons, flatComp_cons, h x (by simp), ih (fun y hy => h y (by simp [hy]))]

/-- a comprehension whose body cannot raise is a pure list function -/
theorem flatComp_pure {α β} (xs : List α) (g : α → List β) :
    flatComp xs (fun x => pure (g x)) = pure (xs.flatMap g) := by
  induction xs with
  | nil => rfl
  | cons x xs ih => simp only [flatComp_cons, ih, pure_bind, List.flatMap_cons]

/-- a comprehension whose body is a conditional between two values that cannot raise (`[a if c else b for x in xs]`, or the
loop with `if c: acc += a else: acc += b`) is a pure list function as well -/
theorem flatComp_ite_pure {α β} (xs : List α) (c : α → Prop) [inst : ∀ x, Decidable (c x)] (a b : α → List β) :
    flatComp xs (fun x => if c x then pure (a x) else pure (b x)) = pure (xs.flatMap (fun x => if c x then a x else b x)) := by
  rw [← flatComp_pure]
  apply flatComp_congr
  intro x _
  split <;> rfl

theorem flatComp_flatMap {α β γ} (xs : List α) (g : α → List β) (F : β → M (List γ)) :
    flatComp (xs.flatMap g) F = flatComp xs (fun x => flatComp (g x) F) := by
  induction xs with
  | nil => rfl
  | cons x xs ih =>
    rw [List.flatMap_cons, flatComp_cons, ← ih]
    generalize g x = l
    induction l with
    | nil => simp only [flatComp_nil, List.nil_append, pure_bind, bind_pure]
    | cons a l ihl => simp only [List.cons_append, flatComp_cons, ihl, bind_assoc, pure_bind, List.append_assoc]

theorem flatComp_map {α β γ} (xs : List α) (g : α → β) (F : β → M (List γ)) :
    flatComp (xs.map g) F = flatComp xs (fun x => F (g x)) := by
  induction xs with
  | nil => rfl
  | cons x xs ih => simp only [List.map_cons, flatComp_cons, ih]

theorem flatMap_singleton_eq_map {α β} (xs : List α) (g : α → β) : xs.flatMap (fun x => [g x]) = xs.map g := by
  induction xs with
  | nil => rfl
  | cons x xs ih => simp [ih]

/-! ### `range(len(xs))` with indexing versus `enumerate(xs)` -/

theorem enumerate_cons {α} (x : α) (xs : List α) (k : Int) : enumerate (x :: xs) k = (k, x) :: enumerate xs (k + 1) := by
  simp only [enumerate, List.length_cons, List.range_succ_eq_map, List.map_cons, List.map_map, List.zip_cons_cons]
  congr 2
  · simp
  · apply List.map_congr_left
    intro i _
    simp only [Function.comp, Int.ofNat_eq_natCast]
    omega

theorem listGet_append_length {α} (pre : List α) (x : α) (xs : List α) :
    listGet (pre ++ x :: xs) (pre.length : Int) = pure x := by
  have : ¬ ((pre.length : Int) < 0) := by omega
  simp [listGet, normIndex, this]

theorem flatComp_range2_getItem {α β} (pre xs : List α) (F : Int → α → M (List β)) :
    flatComp ((List.range' pre.length xs.length).map Int.ofNat) (fun i => listGet (pre ++ xs) i >>= fun v => F i v)
      = flatComp (enumerate xs pre.length) (fun p => F p.1 p.2) := by
  induction xs generalizing pre with
  | nil => rfl
  | cons x xs ih =>
    have h := ih (pre ++ [x])
    simp only [List.length_append, List.length_cons, List.length_nil, List.append_assoc, List.cons_append, List.nil_append,
      zero_add] at h
    simp only [List.length_cons, List.range'_succ, List.map_cons, flatComp_cons, enumerate_cons]
    rw [h]
    simp only [Int.ofNat_eq_natCast, listGet_append_length, pure_bind]
    congr 2

/-- `[… for i in range(len(xs))]` reading `xs[i]` first is `[… for i, v in enumerate(xs)]` -/
theorem flatComp_range_getItem {α β} (xs : List α) (F : Int → α → M (List β)) :
    flatComp (range (xs.length : Int)) (fun i => getItem xs i >>= fun v => F i v)
      = flatComp (enumerate xs (0 : Int)) (fun p => F p.1 p.2) := by
  have h := flatComp_range2_getItem [] xs F
  simp only [List.length_nil, List.nil_append] at h
  simpa [range, List.range_eq_range', getItem] using h

/-! ### `startswith` / `endswith` as slice comparisons -/

theorem startswith_eq_slice (s p : Str) :
    startswith s p = pyEq (slice s Option.none (some (p.length : Int))) p := by
  simp only [startswith, pyEq, PyCmp.eq, slice, clampIndex]
  rw [Bool.eq_iff_iff]
  simp only [List.isPrefixOf_iff_prefix, decide_eq_true_eq, List.drop_zero]
  have : ¬ ((p.length : Int) < 0) := by omega
  simp only [this, if_false, Int.toNat_natCast]
  have e : List.take (min p.length s.length) s = List.take p.length s := by
    rcases le_total p.length s.length with h | h
    · rw [min_eq_left h]
    · rw [min_eq_right h, List.take_of_length_le h, List.take_of_length_le (le_refl _)]
  rw [List.prefix_iff_eq_take, e]
  exact eq_comm

theorem endswith_eq_slice (s : Str) (c : Char) (cs : Str) :
    endswith s (c :: cs) = pyEq (slice s (some (-((cs.length : Int) + 1))) Option.none) (c :: cs) := by
  simp only [endswith, pyEq, PyCmp.eq, slice, clampIndex]
  rw [Bool.eq_iff_iff]
  simp only [List.isSuffixOf_iff_suffix, decide_eq_true_eq, List.take_length]
  have : (-((cs.length : Int) + 1) < 0) := by omega
  simp only [this, if_true]
  rw [List.suffix_iff_eq_drop]
  have e : (-((cs.length : Int) + 1) + (s.length : Int)).toNat = s.length - (c :: cs).length := by
    simp only [List.length_cons]; omega
  rw [e]
  exact eq_comm

/-! ### loops that only store into a dict: `Dict.updatePairs` of a `flatComp` of key/value pairs -/

theorem Dict.updatePairs_nil {κ ν} [DecidableEq κ] (d : Dict κ ν) : d.updatePairs [] = d := rfl
theorem Dict.updatePairs_cons {κ ν} [DecidableEq κ] (d : Dict κ ν) (p : κ × ν) (l : List (κ × ν)) :
    d.updatePairs (p :: l) = (d.set p.1 p.2).updatePairs l := rfl
theorem Dict.updatePairs_append {κ ν} [DecidableEq κ] (d : Dict κ ν) (l₁ l₂ : List (κ × ν)) :
    d.updatePairs (l₁ ++ l₂) = (d.updatePairs l₁).updatePairs l₂ := by
  simp [Dict.updatePairs, List.foldl_append]
theorem Dict.updatePairs_empty {κ ν} [DecidableEq κ] (l : List (κ × ν)) :
    (Dict.empty : Dict κ ν).updatePairs l = Dict.ofPairs l := rfl
theorem Dict.update_eq_updatePairs {κ ν} [DecidableEq κ] (d e : Dict κ ν) : d.update e = d.updatePairs e.items := rfl
theorem Dict.items_empty {κ ν} : (Dict.empty : Dict κ ν).items = [] := rfl
theorem Dict.items_set_empty {κ ν} [DecidableEq κ] (k : κ) (v : ν) : ((Dict.empty : Dict κ ν).set k v).items = [(k, v)] := rfl

/-- a `for` loop whose state is a dict and whose iterations only store entries (`d[k] = v`, `d.update(…)`, `d |= …`) whose
keys and values do not depend on the dict: collect the stored pairs, store them at the end -/
theorem forIn_store_only {α κ ν} [DecidableEq κ] (xs : List α) (d0 : Dict κ ν) (B : α → Dict κ ν → M (ForInStep (Dict κ ν)))
    (h : ∀ x d, B x d = B x Dict.empty >>= fun s => pure (ForInStep.yield (d.updatePairs (stepVal s).items))) :
    forIn xs d0 B = flatComp xs (fun x => B x Dict.empty >>= fun s => pure (stepVal s).items) >>= fun ps => pure (d0.updatePairs ps) := by
  induction xs generalizing d0 with
  | nil => simp [flatComp, Dict.updatePairs_nil]
  | cons x xs ih =>
    rw [List.forIn_cons, h x d0]
    simp only [flatComp, bind_assoc, pure_bind, ih]
    congr 1; funext s; congr 1; funext ys
    simp only [Dict.updatePairs_append]

/-- `for i in range(len(xs))` reading `xs[i]` first is `for i, v in enumerate(xs)` -/
theorem forIn_range2_getItem {α σ} (pre xs : List α) (s0 : σ) (B : Int → α → σ → M (ForInStep σ)) :
    forIn ((List.range' pre.length xs.length).map Int.ofNat) s0 (fun i s => listGet (pre ++ xs) i >>= fun v => B i v s)
      = forIn (enumerate xs pre.length) s0 (fun p s => B p.1 p.2 s) := by
  induction xs generalizing pre s0 with
  | nil => rfl
  | cons x xs ih =>
    have h := fun s => ih (pre ++ [x]) s
    simp only [List.length_append, List.length_cons, List.length_nil, List.append_assoc, List.cons_append, List.nil_append,
      zero_add] at h
    simp only [List.length_cons, List.range'_succ, List.map_cons, List.forIn_cons, enumerate_cons]
    simp only [Int.ofNat_eq_natCast, listGet_append_length, pure_bind]
    congr 1; funext r
    cases r with
    | done b => rfl
    | yield b => exact h b

theorem forIn_range_getItem {α σ} (xs : List α) (s0 : σ) (B : Int → α → σ → M (ForInStep σ)) :
    forIn (range (xs.length : Int)) s0 (fun i s => getItem xs i >>= fun v => B i v s)
      = forIn (enumerate xs (0 : Int)) s0 (fun p s => B p.1 p.2 s) := by
  have h := forIn_range2_getItem [] xs s0 B
  simp only [List.length_nil, List.nil_append] at h
  simpa [range, List.range_eq_range', getItem] using h

theorem zip_range_len {α} (xs : List α) : zip (range (xs.length : Int)) xs = enumerate xs (0 : Int) := by
  simp only [zip, range, enumerate, Int.toNat_natCast]
  congr 1
  apply List.map_congr_left
  intro i _
  simp
/-- `zip(xs, range(len(xs)))` is `enumerate(xs)` with the components swapped -/
theorem zip_len_range {α} (xs : List α) :
    zip xs (range (xs.length : Int)) = (enumerate xs (0 : Int)).map (fun p => (p.2, p.1)) := by
  rw [← zip_range_len]
  simp only [zip]
  rw [← List.zip_swap]
  rfl

/-! ### what is known about the result of a comprehension that keeps every element: its length -/

theorem flatComp_singleton_length {α β δ} (xs : List α) (G : α → M δ) (g : α → δ → β) (r : List β)
    (h : flatComp xs (fun x => G x >>= fun y => pure [g x y]) = .ok r) : r.length = xs.length := by
  induction xs generalizing r with
  | nil => cases h; rfl
  | cons x xs ih =>
    rw [flatComp_cons] at h
    cases hx : G x with
    | error e => rw [hx] at h; cases h
    | ok y =>
      rw [hx] at h
      cases hr : flatComp xs (fun x => G x >>= fun y => pure [g x y]) with
      | error e => simp only [ok_bind, pure_bind, hr, error_bind] at h; cases h
      | ok r' =>
        simp only [ok_bind, pure_bind, hr] at h
        cases h
        simp [ih r' hr]

/-- the rest of the program may use that a comprehension without filter returns as many elements as it was given -/
theorem flatComp_bind_congr_length {α β γ δ} (xs : List α) (G : α → M δ) (g : α → δ → β) (K1 K2 : List β → M γ)
    (h : ∀ r : List β, r.length = xs.length → K1 r = K2 r) :
    flatComp xs (fun x => G x >>= fun y => pure [g x y]) >>= K1 = flatComp xs (fun x => G x >>= fun y => pure [g x y]) >>= K2 := by
  cases hr : flatComp xs (fun x => G x >>= fun y => pure [g x y]) with
  | error e => rfl
  | ok r => exact h r (flatComp_singleton_length xs G g r hr)

theorem zip_len_range_of_eq {α} (xs : List α) (n : Int) (h : n = (xs.length : Int)) :
    zip xs (range n) = (enumerate xs (0 : Int)).map (fun p => (p.2, p.1)) := by
  subst h; exact zip_len_range xs
theorem zip_range_len_of_eq {α} (xs : List α) (n : Int) (h : n = (xs.length : Int)) :
    zip (range n) xs = enumerate xs (0 : Int) := by
  subst h; exact zip_range_len xs
theorem sorted_length {α} [POrd α] (l : List α) : (sorted l).length = l.length := by
  simp [sorted]
theorem Graph.numberOfNodes_eq_length_nodeList (g : Graph) : g.numberOfNodes = (g.nodeList.length : Int) := by
  simp [Graph.numberOfNodes, Graph.nodeList, Dict.keys]

/-- `for i, v in enumerate(xs)` whose body does not look at `i` is `for v in xs`. (`B0` is the whole body; the side condition
says that it does not depend on the index, and is proved by the simplifier when the index does not occur.) -/
theorem forIn_enumerate_unused {α σ} (xs : List α) (k : Int) (s0 : σ) (B0 : Int × α → σ → M (ForInStep σ))
    (h : ∀ p s, B0 p s = B0 (0, p.2) s) :
    forIn (enumerate xs k) s0 B0 = forIn xs s0 (fun v s => B0 (0, v) s) := by
  induction xs generalizing k s0 with
  | nil => rfl
  | cons x xs ih =>
    simp only [enumerate_cons, List.forIn_cons]
    rw [h (k, x) s0]
    congr 1; funext r
    cases r with
    | done b => rfl
    | yield b => exact ih (k + 1) b

theorem flatComp_enumerate_unused {α β} (xs : List α) (k : Int) (F0 : Int × α → M (List β))
    (h : ∀ p, F0 p = F0 (0, p.2)) :
    flatComp (enumerate xs k) F0 = flatComp xs (fun v => F0 (0, v)) := by
  induction xs generalizing k with
  | nil => rfl
  | cons x xs ih =>
    simp only [enumerate_cons, flatComp_cons]
    rw [h (k, x), ih (k + 1)]

/-! ### small pure identities -/
theorem Dict.keys_eq {κ ν} (d : Dict κ ν) : d.keys = d.items.map Prod.fst := rfl
theorem Dict.values_eq {κ ν} (d : Dict κ ν) : d.values = d.items.map Prod.snd := rfl
theorem getItem_pair_zero {α} (p : α × α) : getItem p (0 : Int) = pure p.1 := rfl
theorem getItem_pair_one {α} (p : α × α) : getItem p (1 : Int) = pure p.2 := rfl
theorem getItem_pair_neg_one {α} (p : α × α) : getItem p (-1 : Int) = pure p.2 := rfl
theorem getItem_pair_neg_two {α} (p : α × α) : getItem p (-2 : Int) = pure p.1 := rfl

/-! ### emptiness tests: one spelling (`truthy`) -/
theorem pyEq_len_zero {α} (l : List α) : pyEq (l.length : Int) (0 : Int) = !truthy l := by
  cases l with
  | nil => rfl
  | cons a l =>
    have : ¬ ((l.length : Int) + 1 = 0) := by omega
    simp [pyEq, PyCmp.eq, truthy, this]
theorem pyGt_len_zero {α} (l : List α) : pyGt (l.length : Int) (0 : Int) = truthy l := by
  cases l <;> simp [pyGt, PyCmp.gt, POrd.lt, truthy]
theorem pyLt_zero_len {α} (l : List α) : pyLt (0 : Int) (l.length : Int) = truthy l := by
  cases l <;> simp [pyLt, PyCmp.lt, POrd.lt, truthy]
theorem truthy_len {α} (l : List α) : truthy (l.length : Int) = truthy l := by
  cases l with
  | nil => rfl
  | cons a l =>
    have : ¬ ((l.length : Int) + 1 = 0) := by omega
    simp [truthy, this]
theorem pyEq_int_zero (i : Int) : pyEq i (0 : Int) = !truthy i := by
  by_cases h : i = 0 <;> simp [pyEq, PyCmp.eq, truthy, h]
theorem pyEq_zero_int (i : Int) : pyEq (0 : Int) i = !truthy i := by
  by_cases h : i = 0
  · simp [pyEq, PyCmp.eq, truthy, h]
  · have h' : ¬ (0 = i) := fun e => h e.symm
    simp [pyEq, PyCmp.eq, truthy, h, h']
theorem pyEq_nil_right {α} [POrd α] [DecidableEq α] (l : List α) : pyEq l ([] : List α) = !truthy l := by
  cases l <;> simp [pyEq, PyCmp.eq, truthy]
theorem pyEq_nil_left {α} [POrd α] [DecidableEq α] (l : List α) : pyEq ([] : List α) l = !truthy l := by
  cases l <;> simp [pyEq, PyCmp.eq, truthy]
theorem pyEq_none_right {α} [DecidableEq α] (o : Option α) : pyEq o (Option.none : Option α) = isNone o := by
  cases o <;> simp [pyEq, PyCmp.eq, isNone]
/-- `a > b` is `b < a` (same type on both sides) -/
theorem pyGt_eq_pyLt {α} [POrd α] [DecidableEq α] (a b : α) : pyGt a b = pyLt b a := Bool.eq_iff_iff.mpr Iff.rfl

/-! ### two loops over the same list that differ in what they do at `break` versus after the loop -/

/-- outcome of one iteration of two loop bodies, relative to the two continuations `K1`, `K2` of the loops: both raise the
same exception, or both continue with the same state, or both break with states that make the rest of the program agree -/
def stepRel {σ γ : Type} (K1 K2 : σ → M γ) : M (ForInStep σ) → M (ForInStep σ) → Prop
  | .error e, .error e' => e = e'
  | .ok (.yield a), .ok (.yield b) => a = b ∧ K1 a = K2 a
  | .ok (.done a), .ok (.done b) => K1 a = K2 b
  | _, _ => False

theorem stepRel_yield {σ γ} (K1 K2 : σ → M γ) (a b : σ) :
    stepRel K1 K2 (pure (ForInStep.yield a)) (pure (ForInStep.yield b)) ↔ (a = b ∧ K1 a = K2 a) := Iff.rfl
theorem stepRel_done {σ γ} (K1 K2 : σ → M γ) (a b : σ) :
    stepRel K1 K2 (pure (ForInStep.done a)) (pure (ForInStep.done b)) ↔ K1 a = K2 b := Iff.rfl
theorem stepRel_ok_yield {σ γ} (K1 K2 : σ → M γ) (a b : σ) :
    stepRel K1 K2 (Except.ok (ForInStep.yield a)) (Except.ok (ForInStep.yield b)) ↔ (a = b ∧ K1 a = K2 a) := Iff.rfl
theorem stepRel_ok_done {σ γ} (K1 K2 : σ → M γ) (a b : σ) :
    stepRel K1 K2 (Except.ok (ForInStep.done a)) (Except.ok (ForInStep.done b)) ↔ K1 a = K2 b := Iff.rfl
theorem stepRel_error {σ γ} (K1 K2 : σ → M γ) (e e' : Err) :
    stepRel K1 K2 (Except.error e) (Except.error e') ↔ e = e' := Iff.rfl
theorem stepRel_bind {σ γ β} (K1 K2 : σ → M γ) (a : M β) (k1 k2 : β → M (ForInStep σ))
    (h : ∀ v, stepRel K1 K2 (k1 v) (k2 v)) : stepRel K1 K2 (a >>= k1) (a >>= k2) := by
  cases a with
  | error e => exact rfl
  | ok v => exact h v

theorem forIn_bind_congr_cont {α σ γ} (xs : List α) (s0 : σ) (B1 B2 : α → σ → M (ForInStep σ)) (K1 K2 : σ → M γ)
    (h0 : K1 s0 = K2 s0)
    (h : ∀ x s, K1 s = K2 s → stepRel K1 K2 (B1 x s) (B2 x s)) :
    forIn xs s0 B1 >>= K1 = forIn xs s0 B2 >>= K2 := by
  induction xs generalizing s0 with
  | nil => simpa using h0
  | cons x xs ih =>
    have hx := h x s0 h0
    rw [List.forIn_cons, List.forIn_cons]
    generalize B1 x s0 = r1 at hx
    generalize B2 x s0 = r2 at hx
    match r1, r2, hx with
    | .error e, .error e', hx => cases (show e = e' from hx); rfl
    | .ok (.yield a), .ok (.yield b), hx =>
      obtain ⟨rfl, hk⟩ := (show a = b ∧ K1 a = K2 a from hx)
      exact ih a hk
    | .ok (.done a), .ok (.done b), hx => exact (show K1 a = K2 b from hx)

theorem forIn_congr_cont {α σ} (xs : List α) (s0 : σ) (B1 B2 : α → σ → M (ForInStep σ))
    (h : ∀ x s, stepRel (pure : σ → M σ) pure (B1 x s) (B2 x s)) :
    forIn xs s0 B1 = forIn xs s0 B2 := by
  have := forIn_bind_congr_cont xs s0 B1 B2 pure pure rfl (fun x s _ => h x s)
  simpa only [bind_pure] using this

theorem stepRel_bind_congr {σ γ β} (K1 K2 : σ → M γ) (a1 a2 : M β) (k1 k2 : β → M (ForInStep σ))
    (ha : a1 = a2) (h : ∀ v, stepRel K1 K2 (k1 v) (k2 v)) : stepRel K1 K2 (a1 >>= k1) (a2 >>= k2) := by
  subst ha; exact stepRel_bind K1 K2 a1 k1 k2 h

theorem bind_congr_both {β γ} (a1 a2 : M β) (k1 k2 : β → M γ) (ha : a1 = a2) (h : ∀ v, k1 v = k2 v) :
    a1 >>= k1 = a2 >>= k2 := by
  subst ha; exact bind_congr h

/-! ### two loops whose states correspond under a map `φ` (e.g. the same `let mut` variables declared in another order) -/

/-- like `stepRel`, for a loop with state `σ₁` and a loop with state `σ₂` running in lock-step with states related by `φ` -/
def stepRelMap {σ₁ σ₂ γ : Type} (φ : σ₁ → σ₂) (K1 : σ₁ → M γ) (K2 : σ₂ → M γ) : M (ForInStep σ₁) → M (ForInStep σ₂) → Prop
  | .error e, .error e' => e = e'
  | .ok (.yield a), .ok (.yield b) => φ a = b ∧ K1 a = K2 (φ a)
  | .ok (.done a), .ok (.done b) => K1 a = K2 b
  | _, _ => False

theorem stepRelMap_yield {σ₁ σ₂ γ} (φ : σ₁ → σ₂) (K1 : σ₁ → M γ) (K2 : σ₂ → M γ) (a : σ₁) (b : σ₂) :
    stepRelMap φ K1 K2 (pure (ForInStep.yield a)) (pure (ForInStep.yield b)) ↔ (φ a = b ∧ K1 a = K2 (φ a)) := Iff.rfl
theorem stepRelMap_done {σ₁ σ₂ γ} (φ : σ₁ → σ₂) (K1 : σ₁ → M γ) (K2 : σ₂ → M γ) (a : σ₁) (b : σ₂) :
    stepRelMap φ K1 K2 (pure (ForInStep.done a)) (pure (ForInStep.done b)) ↔ K1 a = K2 b := Iff.rfl
theorem stepRelMap_ok_yield {σ₁ σ₂ γ} (φ : σ₁ → σ₂) (K1 : σ₁ → M γ) (K2 : σ₂ → M γ) (a : σ₁) (b : σ₂) :
    stepRelMap φ K1 K2 (Except.ok (ForInStep.yield a)) (Except.ok (ForInStep.yield b)) ↔ (φ a = b ∧ K1 a = K2 (φ a)) := Iff.rfl
theorem stepRelMap_ok_done {σ₁ σ₂ γ} (φ : σ₁ → σ₂) (K1 : σ₁ → M γ) (K2 : σ₂ → M γ) (a : σ₁) (b : σ₂) :
    stepRelMap φ K1 K2 (Except.ok (ForInStep.done a)) (Except.ok (ForInStep.done b)) ↔ K1 a = K2 b := Iff.rfl
theorem stepRelMap_error {σ₁ σ₂ γ} (φ : σ₁ → σ₂) (K1 : σ₁ → M γ) (K2 : σ₂ → M γ) (e e' : Err) :
    stepRelMap φ K1 K2 (Except.error e) (Except.error e') ↔ e = e' := Iff.rfl
theorem stepRelMap_bind {σ₁ σ₂ γ β} (φ : σ₁ → σ₂) (K1 : σ₁ → M γ) (K2 : σ₂ → M γ) (a : M β)
    (k1 : β → M (ForInStep σ₁)) (k2 : β → M (ForInStep σ₂))
    (h : ∀ v, stepRelMap φ K1 K2 (k1 v) (k2 v)) : stepRelMap φ K1 K2 (a >>= k1) (a >>= k2) := by
  cases a with
  | error e => exact rfl
  | ok v => exact h v

/-- simulation of a loop by a loop over a differently shaped state: the states stay related by `φ` while the loops continue,
and when both break (or both run to the end) the rests of the two programs agree -/
theorem forIn_bind_congr_map {α σ₁ σ₂ γ} (φ : σ₁ → σ₂) {xs : List α} {s0 : σ₁} {t0 : σ₂}
    {B1 : α → σ₁ → M (ForInStep σ₁)} {B2 : α → σ₂ → M (ForInStep σ₂)} {K1 : σ₁ → M γ} {K2 : σ₂ → M γ}
    (ht : t0 = φ s0) (h0 : K1 s0 = K2 (φ s0))
    (h : ∀ x s, K1 s = K2 (φ s) → stepRelMap φ K1 K2 (B1 x s) (B2 x (φ s))) :
    forIn xs s0 B1 >>= K1 = forIn xs t0 B2 >>= K2 := by
  subst ht
  induction xs generalizing s0 with
  | nil => simpa using h0
  | cons x xs ih =>
    have hx := h x s0 h0
    rw [List.forIn_cons, List.forIn_cons]
    generalize B1 x s0 = r1 at hx
    generalize B2 x (φ s0) = r2 at hx
    match r1, r2, hx with
    | .error e, .error e', hx => cases (show e = e' from hx); rfl
    | .ok (.yield a), .ok (.yield b), hx =>
      obtain ⟨rfl, hk⟩ := (show φ a = b ∧ K1 a = K2 (φ a) from hx)
      exact ih hk
    | .ok (.done a), .ok (.done b), hx => exact (show K1 a = K2 b from hx)

theorem truthy_bool (b : Bool) : truthy b = b := Bool.eq_iff_iff.mpr Iff.rfl

/-! ### comparisons: one spelling
(not proved by `rfl` on purpose: `simp` would use them as definitional rewrites, which leave a stale `Decidable` instance behind when
they fire inside the condition of an `if`, and then `ite_bind` no longer applies) -/
theorem pyLe_eq_not_pyGt {α β} [PyCmp α β] (a : α) (b : β) : pyLe a b = !pyGt a b := Bool.eq_iff_iff.mpr Iff.rfl
theorem pyGe_eq_not_pyLt {α β} [PyCmp α β] (a : α) (b : β) : pyGe a b = !pyLt a b := Bool.eq_iff_iff.mpr Iff.rfl
theorem pyNe_eq_not_pyEq {α β} [PyCmp α β] (a : α) (b : β) : pyNe a b = !pyEq a b := Bool.eq_iff_iff.mpr Iff.rfl

/-! ### conditionals -/
theorem ite_bind {α β} (c : Prop) [Decidable c] (a b : M α) (k : α → M β) :
    (if c then a else b) >>= k = if c then a >>= k else b >>= k := by
  split <;> rfl

theorem ite_eq_false {α} (b : Bool) (x y : α) : (if b = false then x else y) = if b = true then y else x := by
  cases b <;> rfl

theorem ite_append_left {α} (c : Prop) [Decidable c] (x a b : List α) :
    (if c then x ++ a else x ++ b) = x ++ (if c then a else b) := by
  split <;> rfl
theorem ite_append_right {α} (c : Prop) [Decidable c] (a b z : List α) :
    (if c then a ++ z else b ++ z) = (if c then a else b) ++ z := by
  split <;> rfl

/-! ### tactics -/

-- `py_bounded n tac`: run `tac` with a fresh budget of `n` thousand heartbeats; running out of it (or of recursion depth) is an
-- ordinary failure, so that a portfolio (`first | … | …`) moves on to its next alternative instead of aborting
open Lean Elab Tactic in
elab "py_bounded " n:num ppSpace tac:tacticSeq : tactic => do
  let s ← saveState
  tryCatchRuntimeEx
    (withTheReader Core.Context (fun ctx => { ctx with maxHeartbeats := n.getNat * 1000 * 1000 }) <|
      withCurrHeartbeats <| evalTactic tac)
    (fun ex => do
      s.restore
      throwError "py_bounded: {ex.toMessageData}")

-- the normal-form simp set
open Lean.Parser.Tactic in
syntax "py_norm" "[" simpLemma,* "]" : tactic
open Lean in
macro_rules
  | `(tactic| py_norm [$eqs,*]) => do
    let base ← `(tactic| simp only [Py.ok_bind, Py.error_bind, Py.throw_eq_error, pure_bind, bind_assoc, bind_pure, ite_bind,
        pyIter_list, pyAdd_list, pyAdd_int, pyLen_list,
        listComp_eq_flatComp, forIn_append_only, forIn_store_only, forIn_range_getItem, List.forIn_cons, List.forIn_nil,
        Dict.updatePairs_nil, Dict.updatePairs_cons, Dict.updatePairs_empty, Dict.update_eq_updatePairs, Dict.items_empty, Dict.items_set_empty,
        setItem_dict, setItem_attrs, Dict.keys_eq, Dict.values_eq, getItem_pair_zero, getItem_pair_one, getItem_pair_neg_one, getItem_pair_neg_two, pyIter_dict, pyIter_pair, pyIter_graph, pyLen_dict,
        truthy_bool, pyEq_len_zero, pyGt_len_zero, pyLt_zero_len, truthy_len, pyEq_int_zero, pyEq_zero_int, forIn_enumerate_unused, flatComp_enumerate_unused, zip_range_len, zip_len_range,
        Int.add_comm, Int.add_left_comm, Int.add_assoc, Int.mul_comm, Int.mul_left_comm, Int.mul_assoc, pyEq_nil_right, pyEq_nil_left, pyEq_none_right, pyGt_eq_pyLt,
        Bool.not_not, Bool.not_and, Bool.not_or, flatComp_bind_flatten, join_nil_eq_flatten, flatten_map_singleton,
        stepVal_yield, stepVal_done,
        List.append_assoc, List.nil_append, List.append_nil, List.flatten_append, List.flatten_cons, List.flatten_nil,
        Option.toList_some, Option.toList_none, implies_true, Bool.not_eq_true', Bool.not_eq_eq_eq_not, Bool.not_true, Bool.not_false,
        ite_not, ite_eq_false, ite_append_left, ite_append_right, pyLe_eq_not_pyGt, pyGe_eq_not_pyLt, pyNe_eq_not_pyEq,
        flatComp_pure, flatComp_ite_pure, List.map_map, List.map_flatMap, List.flatMap_map, Function.comp_def, flatComp_flatMap, flatComp_map, flatComp_cons, flatComp_nil, flatMap_singleton_eq_map, flatComp_range_getItem,
        startswith_eq_slice, endswith_eq_slice, List.length_cons, List.length_nil, Nat.cast_ofNat, Nat.cast_zero, Nat.cast_add, Nat.cast_one,
        zero_add, Nat.reduceAdd, Int.reduceAdd, Int.reduceNeg, Int.reduceSub, Int.reduceMul, Prod.mk.eta, List.map_id'])
    match base with
    | `(tactic| simp only [$ls,*]) =>
      let all := eqs.getElems.foldl (fun acc e => acc.push ⟨e.raw⟩) ls.getElems
      `(tactic| simp only [$all,*])
    | _ => Macro.throwUnsupported

/-- all permutations of `l` (`k` = length of `l`) -/
def permsAux : Nat → List Nat → List (List Nat)
  | 0, _ => [[]]
  | k + 1, l => l.flatMap fun a => (permsAux k (l.filter (· ≠ a))).map (a :: ·)

-- `py_loop_perm tac`: the goal is `forIn xs s0 B1 >>= K1 = forIn xs t0 B2 >>= K2` where the two loop states are tuples with the
-- same components in a different order: try `forIn_bind_congr_map` with every permutation `φ` of 2, 3 or 4 components that maps
-- `s0` to `t0`; the two resulting goals must be closed by `tac`
open Lean Elab Tactic Meta in
elab "py_loop_perm " tac:tacticSeq : tactic => do
  let comp (n i : Nat) : MacroM Term := do
    let mut t ← `(s)
    for _ in [0:i] do t ← `(($t).2)
    if i + 1 < n then t ← `(($t).1)
    return t
  -- cheap shape test first: `forIn … >>= … = forIn … >>= …`
  let tgt ← instantiateMVars (← (← getMainGoal).getType)
  let isLoopBind (e : Expr) : Bool :=
    e.isAppOfArity ``Bind.bind 6 && (e.getArg! 4).isAppOf ``ForIn.forIn
  match tgt.eq? with
  | some (_, lhs, rhs) => unless isLoopBind lhs && isLoopBind rhs do throwError "py_loop_perm: not two loops"
  | none => throwError "py_loop_perm: not an equation"
  let stateTy (e : Expr) : Expr := (e.getArg! 4).getArg! 4
  let rec comps? : Nat → Expr → Option (List Expr)
    | 0, _ => none
    | 1, t => some [t]
    | k + 2, t => if t.isAppOfArity ``Prod 2 then (comps? (k + 1) (t.getArg! 1)).map (t.getArg! 0 :: ·) else none
  let some (_, lhs, rhs) := tgt.eq? | throwError "py_loop_perm: not an equation"
  let σ₁ ← whnfR (stateTy lhs)
  let σ₂ ← whnfR (stateTy rhs)
  for n in [2, 3, 4] do
    let some ts₁ := comps? n σ₁ | continue
    let some ts₂ := comps? n σ₂ | continue
    for p in permsAux n (List.range n) do
      -- component `j` of the right state is component `p[j]` of the left state: the types must agree
      unless (← (List.range n).allM fun j => isDefEq ts₂[j]! ts₁[p[j]!]!) do continue
      let cs ← liftMacroM <| p.toArray.mapM (comp n)
      let first := cs[0]!
      let rest := cs.extract 1 cs.size
      let φ ← `(fun s => ($first, $rest,*))
      let s ← saveState
      try
        withoutRecover <|
          evalTactic (← `(tactic| focus (refine forIn_bind_congr_map $φ (by rfl) ?_ ?_ <;> ($tac)); done))
        return
      catch _ => s.restore
  throwError "py_loop_perm: no permutation of the loop state works"

-- structural descent for what normalisation leaves: same-shaped programs whose loops differ at `break` / after the loop,
-- or whose loop states are the same tuple in another order
syntax "py_descend" : tactic
macro_rules
  | `(tactic| py_descend) =>
  `(tactic| (
      try simp only [stepRel_yield, stepRel_done, stepRel_error, stepRelMap_yield, stepRelMap_done, stepRelMap_error, true_and]
      first
      | done
      | py_bounded 5 rfl
      | (intro _; py_descend)
      | (apply forIn_bind_congr_cont <;> py_descend)
      | (apply forIn_congr_cont <;> py_descend)
      | (py_loop_perm (py_descend))
      | (apply stepRel_bind <;> py_descend)
      | (apply stepRelMap_bind <;> py_descend)
      | (apply flatComp_bind_congr_length <;> py_descend)
      | (apply bind_congr <;> py_descend)
      | (split <;> py_descend)
      | (simp_all [stepRel_yield, stepRel_done, stepRel_error, stepRel_ok_yield, stepRel_ok_done,
          stepRelMap_yield, stepRelMap_done, stepRelMap_error, stepRelMap_ok_yield, stepRelMap_ok_done,
          zip_len_range_of_eq, zip_range_len_of_eq, sorted_length, Graph.numberOfNodes_eq_length_nodeList]; done)
      | (apply stepRel_bind_congr <;> py_descend)
      | (apply bind_congr_both <;> py_descend)))

-- `py_equiv [eqs]`: normalise both sides with the callee equalities `eqs` and the idiom lemmas, then close by reflexivity
-- or by the structural descent. Every stage has its own heartbeat budget (`py_bounded`).
open Lean.Parser.Tactic in
syntax "py_equiv" "[" simpLemma,* "]" : tactic
open Lean in
macro_rules
  | `(tactic| py_equiv [$eqs,*]) => do
    let basic ← `(tactic| simp only [Py.ok_bind, Py.error_bind, Py.pure_eq_ok, Py.throw_eq_error, pyIter_list, pyAdd_list, pyAdd_int,
        pyLen_list])
    let basic ← match basic with
      | `(tactic| simp only [$ls,*]) =>
        let all := eqs.getElems.foldl (fun acc e => acc.push ⟨e.raw⟩) ls.getElems
        `(tactic| simp only [$all,*])
      | _ => Macro.throwUnsupported
    `(tactic| first
        | (simp only [$eqs,*]; py_bounded 10 rfl)
        | ($basic:tactic; py_bounded 10 rfl)
        | py_bounded 200 (py_norm [$eqs,*]; first | done | py_bounded 10 rfl | (py_descend; done))
        | py_bounded 80 (simp [$eqs,*]))

end Py
