/-
Spec.Order — Python's `<` on the modelled value types is a strict total order, and the facts
about `sorted` that follow (S1–S3 of DESIGN.md §5). Code-independent.
-/
import PyModel.Ops
set_option autoImplicit false

namespace Py

/-- `POrd.lt` is a strict total order -/
class LawfulPOrd (α : Type) [POrd α] : Prop where
  irrefl : ∀ a : α, POrd.lt a a = false
  trans : ∀ a b c : α, POrd.lt a b = true → POrd.lt b c = true → POrd.lt a c = true
  total : ∀ a b : α, a ≠ b → POrd.lt a b = true ∨ POrd.lt b a = true

/-! ### consequences of the axioms -/
namespace LawfulPOrd
variable {α : Type} [POrd α] [LawfulPOrd α]

theorem asymm {a b : α} (h : POrd.lt a b = true) : POrd.lt b a = false := by
  cases h' : POrd.lt b a with
  | false => rfl
  | true => have := trans a b a h h'; rw [irrefl] at this; exact absurd this (by simp)

theorem ne_of_lt {a b : α} (h : POrd.lt a b = true) : a ≠ b := by
  rintro rfl; rw [irrefl] at h; exact absurd h (by simp)

/-- incomparable elements are equal -/
theorem eq_of_not_lt {a b : α} (h₁ : POrd.lt a b = false) (h₂ : POrd.lt b a = false) : a = b := by
  by_contra hne
  rcases total a b hne with h | h
  · rw [h₁] at h; exact absurd h (by simp)
  · rw [h₂] at h; exact absurd h (by simp)

/-- trichotomy -/
theorem lt_trichotomy (a b : α) : POrd.lt a b = true ∨ a = b ∨ POrd.lt b a = true := by
  by_cases h : a = b
  · exact .inr (.inl h)
  · rcases total a b h with h | h
    · exact .inl h
    · exact .inr (.inr h)

theorem not_lt_iff {a b : α} : POrd.lt a b = false ↔ (a = b ∨ POrd.lt b a = true) := by
  constructor
  · intro h
    rcases lt_trichotomy a b with h' | h' | h'
    · rw [h] at h'; exact absurd h' (by simp)
    · exact .inl h'
    · exact .inr h'
  · rintro (rfl | h)
    · exact irrefl a
    · exact asymm h

/-- `a ≤ b ≤ c → a ≤ c` for `x ≤ y := ¬ y < x` -/
theorem le_trans {a b c : α} (h₁ : POrd.lt b a = false) (h₂ : POrd.lt c b = false) : POrd.lt c a = false := by
  rcases not_lt_iff.1 h₁ with rfl | h₁'
  · exact h₂
  · rcases not_lt_iff.1 h₂ with rfl | h₂'
    · exact h₁
    · exact asymm (trans a b c h₁' h₂')

theorem lt_of_lt_of_le {a b c : α} (h₁ : POrd.lt a b = true) (h₂ : POrd.lt c b = false) : POrd.lt a c = true := by
  rcases not_lt_iff.1 h₂ with rfl | h₂'
  · exact h₁
  · exact trans a b c h₁ h₂'

theorem lt_of_le_of_lt {a b c : α} (h₁ : POrd.lt b a = false) (h₂ : POrd.lt b c = true) : POrd.lt a c = true := by
  rcases not_lt_iff.1 h₁ with rfl | h₁'
  · exact h₂
  · exact trans a b c h₁' h₂

end LawfulPOrd

instance : LawfulPOrd Int where
  irrefl a := by simp [POrd.lt]
  trans a b c := by simp only [POrd.lt, decide_eq_true_eq]; omega
  total a b h := by simp only [POrd.lt, decide_eq_true_eq]; omega

instance : LawfulPOrd Nat where
  irrefl a := by simp [POrd.lt]
  trans a b c := by simp only [POrd.lt, decide_eq_true_eq]; omega
  total a b h := by simp only [POrd.lt, decide_eq_true_eq]; omega

instance : LawfulPOrd Char where
  irrefl a := by simp [POrd.lt]
  trans a b c := by
    simp only [POrd.lt, decide_eq_true_eq, UInt32.lt_iff_toNat_lt]; omega
  total a b h := by
    have h' : a.val.toNat ≠ b.val.toNat := fun e => h (Char.ext (UInt32.toNat_inj.1 e))
    simp only [POrd.lt, decide_eq_true_eq, UInt32.lt_iff_toNat_lt]; omega

instance : LawfulPOrd Bool where
  irrefl a := by cases a <;> rfl
  trans a b c := by cases a <;> cases b <;> cases c <;> simp [POrd.lt]
  total a b h := by cases a <;> cases b <;> simp_all [POrd.lt]

section prod_list
variable {α β : Type} [POrd α] [POrd β] [LawfulPOrd α] [LawfulPOrd β]

theorem lexLt_cons_iff (a b : α) (as bs : List α) :
    lexLt POrd.lt (a :: as) (b :: bs) = true ↔ (POrd.lt a b = true ∨ (a = b ∧ lexLt POrd.lt as bs = true)) := by
  rw [lexLt]
  rcases LawfulPOrd.lt_trichotomy a b with h | rfl | h
  · simp [h]
  · simp [LawfulPOrd.irrefl]
  · have h' := LawfulPOrd.asymm h
    have hne : a ≠ b := fun e => LawfulPOrd.ne_of_lt h e.symm
    simp [h, h', hne]

theorem lexLt_irrefl (l : List α) : lexLt POrd.lt l l = false := by
  induction l with
  | nil => rfl
  | cons a as ih =>
    cases h : lexLt POrd.lt (a :: as) (a :: as) with
    | false => rfl
    | true =>
      rcases (lexLt_cons_iff a a as as).1 h with h' | ⟨_, h'⟩
      · rw [LawfulPOrd.irrefl] at h'; exact absurd h' (by simp)
      · rw [ih] at h'; exact absurd h' (by simp)

theorem lexLt_trans (x y z : List α) (h₁ : lexLt POrd.lt x y = true) (h₂ : lexLt POrd.lt y z = true) :
    lexLt POrd.lt x z = true := by
  induction x generalizing y z with
  | nil =>
    cases y with
    | nil => simp [lexLt] at h₁
    | cons b bs =>
      cases z with
      | nil => simp [lexLt] at h₂
      | cons c cs => simp [lexLt]
  | cons a as ih =>
    cases y with
    | nil => simp [lexLt] at h₁
    | cons b bs =>
      cases z with
      | nil => simp [lexLt] at h₂
      | cons c cs =>
        rw [lexLt_cons_iff] at h₁ h₂ ⊢
        rcases h₁ with h₁ | ⟨rfl, h₁⟩
        · rcases h₂ with h₂ | ⟨rfl, h₂⟩
          · exact .inl (LawfulPOrd.trans a b c h₁ h₂)
          · exact .inl h₁
        · rcases h₂ with h₂ | ⟨rfl, h₂⟩
          · exact .inl h₂
          · exact .inr ⟨rfl, ih bs cs h₁ h₂⟩

theorem lexLt_total (x y : List α) (h : x ≠ y) : lexLt POrd.lt x y = true ∨ lexLt POrd.lt y x = true := by
  induction x generalizing y with
  | nil =>
    cases y with
    | nil => exact absurd rfl h
    | cons b bs => simp [lexLt]
  | cons a as ih =>
    cases y with
    | nil => simp [lexLt]
    | cons b bs =>
      rw [lexLt_cons_iff, lexLt_cons_iff]
      rcases LawfulPOrd.lt_trichotomy a b with hab | rfl | hab
      · exact .inl (.inl hab)
      · have : as ≠ bs := fun e => h (by rw [e])
        rcases ih bs this with h' | h'
        · exact .inl (.inr ⟨rfl, h'⟩)
        · exact .inr (.inr ⟨rfl, h'⟩)
      · exact .inr (.inl hab)

instance : LawfulPOrd (List α) where
  irrefl := lexLt_irrefl
  trans := lexLt_trans
  total := lexLt_total

omit [LawfulPOrd α] in
theorem lt_list_def (x y : List α) : POrd.lt x y = lexLt POrd.lt x y := rfl

omit [LawfulPOrd β] in
theorem lt_prod_iff (p q : α × β) :
    POrd.lt p q = true ↔ (POrd.lt p.1 q.1 = true ∨ (p.1 = q.1 ∧ POrd.lt p.2 q.2 = true)) := by
  obtain ⟨a, a'⟩ := p
  obtain ⟨b, b'⟩ := q
  show (if POrd.lt a b then true else if POrd.lt b a then false else POrd.lt a' b') = true ↔ _
  rcases LawfulPOrd.lt_trichotomy a b with h | rfl | h
  · simp [h]
  · simp [LawfulPOrd.irrefl]
  · have h' := LawfulPOrd.asymm h
    have hne : a ≠ b := fun e => LawfulPOrd.ne_of_lt h e.symm
    simp [h, h', hne]

instance : LawfulPOrd (α × β) where
  irrefl p := by
    cases h : POrd.lt p p with
    | false => rfl
    | true =>
      rcases (lt_prod_iff p p).1 h with h' | ⟨_, h'⟩
      · rw [LawfulPOrd.irrefl] at h'; exact absurd h' (by simp)
      · rw [LawfulPOrd.irrefl] at h'; exact absurd h' (by simp)
  trans p q r h₁ h₂ := by
    rw [lt_prod_iff] at h₁ h₂ ⊢
    rcases h₁ with h₁ | ⟨e₁, h₁⟩
    · rcases h₂ with h₂ | ⟨e₂, h₂⟩
      · exact .inl (LawfulPOrd.trans _ _ _ h₁ h₂)
      · exact .inl (e₂ ▸ h₁)
    · rcases h₂ with h₂ | ⟨e₂, h₂⟩
      · exact .inl (e₁ ▸ h₂)
      · exact .inr ⟨e₁.trans e₂, LawfulPOrd.trans _ _ _ h₁ h₂⟩
  total p q h := by
    rw [lt_prod_iff, lt_prod_iff]
    rcases LawfulPOrd.lt_trichotomy p.1 q.1 with h₁ | e₁ | h₁
    · exact .inl (.inl h₁)
    · have : p.2 ≠ q.2 := fun e₂ => h (Prod.ext e₁ e₂)
      rcases LawfulPOrd.total _ _ this with h₂ | h₂
      · exact .inl (.inr ⟨e₁, h₂⟩)
      · exact .inr (.inr ⟨e₁.symm, h₂⟩)
    · exact .inr (.inl h₁)

end prod_list

theorem Flt.tok_inj {f g : Flt} (h : f.tok = g.tok) : f = g := by
  cases f; cases g; cases h; rfl

instance : LawfulPOrd Sc where
  irrefl a := by
    cases a <;> show Sc.lt _ _ = false <;> simp only [Sc.lt] <;>
      first
      | exact LawfulPOrd.irrefl (α := Bool) _
      | exact LawfulPOrd.irrefl (α := Int) _
      | exact LawfulPOrd.irrefl (α := List Char) _
      | simp [Sc.tag]
  trans a b c := by
    cases a <;> cases b <;> cases c <;>
      show Sc.lt _ _ = true → Sc.lt _ _ = true → Sc.lt _ _ = true <;>
      simp only [Sc.lt] <;>
      first
      | exact LawfulPOrd.trans (α := Bool) _ _ _
      | exact LawfulPOrd.trans (α := Int) _ _ _
      | exact LawfulPOrd.trans (α := List Char) _ _ _
      | simp [Sc.tag]
  total a b h := by
    cases a <;> cases b <;>
      first
      | exact absurd rfl h
      | (show Sc.lt _ _ = true ∨ Sc.lt _ _ = true
         simp only [Sc.lt]
         first
         | exact LawfulPOrd.total (α := Bool) _ _ (fun e => h (by rw [e]))
         | exact LawfulPOrd.total (α := Int) _ _ (fun e => h (by rw [e]))
         | exact LawfulPOrd.total (α := List Char) _ _ (fun e => h (by rw [e]))
         | exact LawfulPOrd.total (α := List Char) _ _ (fun e => h (congrArg Sc.flt (Flt.tok_inj e)))
         | simp [Sc.tag])

instance : LawfulPOrd Val where
  irrefl a := by
    cases a with
    | sc s => exact LawfulPOrd.irrefl (α := Sc) s
    | tup l => exact LawfulPOrd.irrefl (α := List Sc) l
  trans a b c := by
    cases a <;> cases b <;> cases c <;>
      show Val.lt _ _ = true → Val.lt _ _ = true → Val.lt _ _ = true <;>
      simp only [Val.lt] <;>
      first
      | exact LawfulPOrd.trans (α := Sc) _ _ _
      | exact LawfulPOrd.trans (α := List Sc) _ _ _
      | simp
  total a b h := by
    cases a <;> cases b <;>
      show Val.lt _ _ = true ∨ Val.lt _ _ = true <;>
      simp only [Val.lt] <;>
      first
      | exact LawfulPOrd.total (α := Sc) _ _ (fun e => h (by rw [e]))
      | exact LawfulPOrd.total (α := List Sc) _ _ (fun e => h (by rw [e]))
      | simp

/-! ### generic facts about `mergeSort` with a total, transitive, antisymmetric comparison -/

section generic
variable {α : Type}

/-- two permutations sorted w.r.t. a comparison that is total, transitive and antisymmetric *on the
elements of the list* are equal -/
theorem mergeSort_eq_of_perm {le : α → α → Bool} {l₁ l₂ : List α}
    (htrans : ∀ a b c : α, le a b = true → le b c = true → le a c = true)
    (htotal : ∀ a b : α, (le a b || le b a) = true)
    (hanti : ∀ a b : α, a ∈ l₁ → b ∈ l₁ → le a b = true → le b a = true → a = b)
    (h : l₁.Perm l₂) : l₁.mergeSort le = l₂.mergeSort le := by
  have p : (l₁.mergeSort le).Perm (l₂.mergeSort le) :=
    (List.mergeSort_perm l₁ le).trans (h.trans (List.mergeSort_perm l₂ le).symm)
  refine List.Perm.eq_of_pairwise (le := fun a b => le a b = true) ?_
    (List.pairwise_mergeSort htrans htotal l₁) (List.pairwise_mergeSort htrans htotal l₂) p
  intro a b ha hb hab hba
  have ha' : a ∈ l₁ := List.mem_mergeSort.1 ha
  have hb' : b ∈ l₁ := h.symm.subset (List.mem_mergeSort.1 hb)
  exact hanti a b ha' hb' hab hba

/-- a sorted permutation of `l` *is* `mergeSort l` -/
theorem eq_mergeSort_of_perm_of_pairwise {le : α → α → Bool} {l s : List α}
    (htrans : ∀ a b c : α, le a b = true → le b c = true → le a c = true)
    (htotal : ∀ a b : α, (le a b || le b a) = true)
    (hanti : ∀ a b : α, a ∈ l → b ∈ l → le a b = true → le b a = true → a = b)
    (hp : s.Perm l) (hs : s.Pairwise (fun a b => le a b = true)) : l.mergeSort le = s := by
  rw [mergeSort_eq_of_perm htrans htotal hanti hp.symm]
  exact List.mergeSort_of_pairwise hs

end generic

/-! ### `sorted`, `sortedRev`, `sortedKey` -/

section sorting
variable {α : Type} [POrd α] [LawfulPOrd α]

private theorem le_trans' (a b c : α) (h₁ : (!POrd.lt b a) = true) (h₂ : (!POrd.lt c b) = true) :
    (!POrd.lt c a) = true := by
  simp only [Bool.not_eq_true'] at *
  exact LawfulPOrd.le_trans h₁ h₂

private theorem le_total' (a b : α) : (!POrd.lt b a || !POrd.lt a b) = true := by
  cases h : POrd.lt b a with
  | false => simp
  | true => simp [LawfulPOrd.asymm h]

private theorem le_antisymm' (a b : α) (h₁ : (!POrd.lt b a) = true) (h₂ : (!POrd.lt a b) = true) : a = b := by
  simp only [Bool.not_eq_true'] at *
  exact LawfulPOrd.eq_of_not_lt h₂ h₁

private theorem ge_trans' (a b c : α) (h₁ : (!POrd.lt a b) = true) (h₂ : (!POrd.lt b c) = true) :
    (!POrd.lt a c) = true := by
  simp only [Bool.not_eq_true'] at *
  exact LawfulPOrd.le_trans h₂ h₁

/-- S1: `sorted` depends only on the multiset of its argument -/
theorem sorted_perm {l₁ l₂ : List α} (h : l₁.Perm l₂) : sorted l₁ = sorted l₂ :=
  mergeSort_eq_of_perm le_trans' le_total' (fun a b _ _ => le_antisymm' a b) h

omit [LawfulPOrd α] in
theorem sorted_perm_self (l : List α) : (sorted l).Perm l := List.mergeSort_perm l _

omit [LawfulPOrd α] in
@[simp] theorem mem_sorted {l : List α} {a : α} : a ∈ sorted l ↔ a ∈ l := List.mem_mergeSort

omit [LawfulPOrd α] in
@[simp] theorem length_sorted (l : List α) : (sorted l).length = l.length := List.length_mergeSort l

theorem sorted_pairwise (l : List α) : (sorted l).Pairwise (fun a b => POrd.lt b a = false) := by
  have := List.pairwise_mergeSort (le := fun a b : α => !POrd.lt b a) le_trans' le_total' l
  simpa only [Bool.not_eq_true', sorted] using this

theorem sortedRev_perm {l₁ l₂ : List α} (h : l₁.Perm l₂) : sortedRev l₁ = sortedRev l₂ :=
  mergeSort_eq_of_perm ge_trans' (fun a b => le_total' b a) (fun a b _ _ h₁ h₂ => le_antisymm' a b h₂ h₁) h

omit [LawfulPOrd α] in
theorem sortedRev_perm_self (l : List α) : (sortedRev l).Perm l := List.mergeSort_perm l _

omit [LawfulPOrd α] in
@[simp] theorem mem_sortedRev {l : List α} {a : α} : a ∈ sortedRev l ↔ a ∈ l := List.mem_mergeSort

omit [LawfulPOrd α] in
@[simp] theorem length_sortedRev (l : List α) : (sortedRev l).length = l.length := List.length_mergeSort l

theorem sortedRev_pairwise (l : List α) : (sortedRev l).Pairwise (fun a b => POrd.lt a b = false) := by
  have := List.pairwise_mergeSort (le := fun a b : α => !POrd.lt a b) ge_trans' (fun a b => le_total' b a) l
  simpa only [Bool.not_eq_true', sortedRev] using this

/-- a weakly ascending permutation of `l` is `sorted l` (characterisation of `sorted`) -/
theorem sorted_eq_of_perm_of_pairwise {l s : List α} (hp : s.Perm l)
    (hs : s.Pairwise (fun a b => POrd.lt b a = false)) : sorted l = s := by
  refine eq_mergeSort_of_perm_of_pairwise le_trans' le_total' (fun a b _ _ => le_antisymm' a b) hp ?_
  simpa only [Bool.not_eq_true'] using hs

/-- a weakly descending permutation of `l` is `sortedRev l` -/
theorem sortedRev_eq_of_perm_of_pairwise {l s : List α} (hp : s.Perm l)
    (hs : s.Pairwise (fun a b => POrd.lt a b = false)) : sortedRev l = s := by
  refine eq_mergeSort_of_perm_of_pairwise ge_trans' (fun a b => le_total' b a)
    (fun a b _ _ h₁ h₂ => le_antisymm' a b h₂ h₁) hp ?_
  simpa only [Bool.not_eq_true'] using hs

/-- sorting a weakly ascending list does nothing -/
theorem sorted_of_pairwise {l : List α} (h : l.Pairwise (fun a b => POrd.lt b a = false)) : sorted l = l :=
  sorted_eq_of_perm_of_pairwise (List.Perm.refl l) h

/-- sorting a strictly ascending list does nothing -/
theorem sorted_of_strict {l : List α} (h : l.Pairwise (fun a b => POrd.lt a b = true)) : sorted l = l :=
  sorted_of_pairwise (h.imp LawfulPOrd.asymm)

theorem sorted_idem (l : List α) : sorted (sorted l) = sorted l := sorted_of_pairwise (sorted_pairwise l)

/-- because `<` is a strict *total* order (equivalent elements are equal), stability is invisible and
`sorted(l, reverse=True)` is the reverse of `sorted(l)` -/
theorem sortedRev_eq_reverse_sorted (l : List α) : sortedRev l = (sorted l).reverse :=
  sortedRev_eq_of_perm_of_pairwise ((List.reverse_perm _).trans (sorted_perm_self l))
    (List.pairwise_reverse.2 (sorted_pairwise l))

theorem sorted_eq_reverse_sortedRev (l : List α) : sorted l = (sortedRev l).reverse := by
  rw [sortedRev_eq_reverse_sorted, List.reverse_reverse]

omit [LawfulPOrd α] in
theorem sorted_nodup {l : List α} (h : l.Nodup) : (sorted l).Nodup :=
  (sorted_perm_self l).nodup_iff.2 h

/-- `sorted` of a duplicate-free list is strictly ascending -/
theorem sorted_strict_of_nodup {l : List α} (h : l.Nodup) : (sorted l).Pairwise (fun a b => POrd.lt a b = true) := by
  have h₁ := sorted_pairwise l
  have h₂ : (sorted l).Pairwise (· ≠ ·) := sorted_nodup h
  refine (h₁.and h₂).imp ?_
  rintro a b ⟨hle, hne⟩
  rcases LawfulPOrd.total a b hne with h | h
  · exact h
  · rw [hle] at h; exact absurd h (by simp)

/-- a strictly ascending list is duplicate-free -/
theorem nodup_of_strict {l : List α} (h : l.Pairwise (fun a b => POrd.lt a b = true)) : l.Nodup :=
  h.imp (fun hab => LawfulPOrd.ne_of_lt hab)

/-- two strictly ascending lists with the same elements are equal -/
theorem eq_of_strict_of_mem_iff {l₁ l₂ : List α} (h₁ : l₁.Pairwise (fun a b => POrd.lt a b = true))
    (h₂ : l₂.Pairwise (fun a b => POrd.lt a b = true)) (h : ∀ x, x ∈ l₁ ↔ x ∈ l₂) : l₁ = l₂ := by
  have p : l₁.Perm l₂ := (List.perm_ext_iff_of_nodup (nodup_of_strict h₁) (nodup_of_strict h₂)).2 h
  rw [← sorted_of_strict h₁, ← sorted_of_strict h₂]
  exact sorted_perm p

/-! `sorted(l, key=f)` -/

variable {ι : Type}

omit [LawfulPOrd α] in
theorem sortedKey_perm_self (f : ι → α) (l : List ι) : (sortedKey f l).Perm l := List.mergeSort_perm l _

omit [LawfulPOrd α] in
@[simp] theorem mem_sortedKey {f : ι → α} {l : List ι} {a : ι} : a ∈ sortedKey f l ↔ a ∈ l := List.mem_mergeSort

omit [LawfulPOrd α] in
@[simp] theorem length_sortedKey (f : ι → α) (l : List ι) : (sortedKey f l).length = l.length :=
  List.length_mergeSort l

theorem sortedKey_pairwise (f : ι → α) (l : List ι) :
    (sortedKey f l).Pairwise (fun a b => POrd.lt (f b) (f a) = false) := by
  have := List.pairwise_mergeSort (le := fun a b : ι => !POrd.lt (f b) (f a))
    (fun a b c => le_trans' (f a) (f b) (f c)) (fun a b => le_total' (f a) (f b)) l
  simpa only [Bool.not_eq_true', sortedKey] using this

omit [LawfulPOrd α] in
/-- the keys of `sorted(l, key=f)` are the sorted keys (no assumption on `f`) -/
theorem map_sortedKey (f : ι → α) (l : List ι) : (sortedKey f l).map f = sorted (l.map f) :=
  List.map_mergeSort (fun _ _ _ _ => rfl)

/-- if the key is injective on the list, `sorted(l, key=f)` depends only on the multiset -/
theorem sortedKey_perm {f : ι → α} {l₁ l₂ : List ι} (hinj : ∀ a ∈ l₁, ∀ b ∈ l₁, f a = f b → a = b)
    (h : l₁.Perm l₂) : sortedKey f l₁ = sortedKey f l₂ :=
  mergeSort_eq_of_perm (fun a b c => le_trans' (f a) (f b) (f c)) (fun a b => le_total' (f a) (f b))
    (fun a b ha hb h₁ h₂ => hinj a ha b hb (le_antisymm' (f a) (f b) h₁ h₂)) h

/-- characterisation of `sorted(l, key=f)` for a key that is injective on the list -/
theorem sortedKey_eq_of_perm_of_pairwise {f : ι → α} {l s : List ι}
    (hinj : ∀ a ∈ l, ∀ b ∈ l, f a = f b → a = b) (hp : s.Perm l)
    (hs : s.Pairwise (fun a b => POrd.lt (f b) (f a) = false)) : sortedKey f l = s := by
  refine eq_mergeSort_of_perm_of_pairwise (fun a b c => le_trans' (f a) (f b) (f c))
    (fun a b => le_total' (f a) (f b))
    (fun a b ha hb h₁ h₂ => hinj a ha b hb (le_antisymm' (f a) (f b) h₁ h₂)) hp ?_
  simpa only [Bool.not_eq_true'] using hs

/-- with keys that are pairwise distinct on the list, `sorted(l, key=f)` is strictly ascending in the key -/
theorem sortedKey_strict {f : ι → α} {l : List ι} (hnd : (l.map f).Nodup) :
    (sortedKey f l).Pairwise (fun a b => POrd.lt (f a) (f b) = true) := by
  have h := sorted_strict_of_nodup hnd
  rw [← map_sortedKey, List.pairwise_map] at h
  exact h

end sorting

/-! ### positions in strictly ascending lists -/

section rank
variable {α : Type} [POrd α] [LawfulPOrd α] [DecidableEq α]

/-- in a strictly ascending list the position of a member is the number of smaller members -/
theorem idxOf_eq_countLt_of_strict {s : List α} (hs : s.Pairwise (fun a b => POrd.lt a b = true))
    {k : α} (hk : k ∈ s) : s.idxOf k = (s.filter (fun y => POrd.lt y k)).length := by
  induction s with
  | nil => simp at hk
  | cons x t ih =>
    rw [List.pairwise_cons] at hs
    obtain ⟨hx, ht⟩ := hs
    by_cases hkx : k = x
    · subst hkx
      have : (k :: t).filter (fun y => POrd.lt y k) = [] := by
        rw [List.filter_eq_nil_iff]
        intro y hy
        rcases List.mem_cons.1 hy with rfl | hy
        · simp [LawfulPOrd.irrefl]
        · simp [LawfulPOrd.asymm (hx y hy)]
      rw [this]; simp
    · have hkt : k ∈ t := by
        rcases List.mem_cons.1 hk with h | h
        · exact absurd h hkx
        · exact h
      have hxk := hx k hkt
      rw [List.idxOf_cons_ne _ (Ne.symm hkx), List.filter_cons_of_pos (by simpa using hxk), ih ht hkt]
      simp

/-- in a strictly ascending list, positions compare like the elements -/
theorem idxOf_lt_idxOf_iff_of_strict {s : List α} (hs : s.Pairwise (fun a b => POrd.lt a b = true))
    {a b : α} (ha : a ∈ s) (hb : b ∈ s) : s.idxOf a < s.idxOf b ↔ POrd.lt a b = true := by
  have key : ∀ a b : α, a ∈ s → b ∈ s → s.idxOf a < s.idxOf b → POrd.lt a b = true := by
    intro a b ha hb h
    have hia := List.idxOf_lt_length_iff.2 ha
    have hib := List.idxOf_lt_length_iff.2 hb
    have := (List.pairwise_iff_getElem.1 hs) _ _ hia hib h
    simpa only [List.getElem_idxOf] using this
  constructor
  · exact key a b ha hb
  · intro hab
    by_contra hlt
    rcases Nat.lt_or_eq_of_le (Nat.le_of_not_lt hlt) with h | h
    · have := key b a hb ha h
      rw [LawfulPOrd.asymm hab] at this; exact absurd this (by simp)
    · have : b = a := (List.idxOf_inj hb).1 h
      subst this
      rw [LawfulPOrd.irrefl] at hab; exact absurd hab (by simp)

theorem idxOf_le_idxOf_iff_of_strict {s : List α} (hs : s.Pairwise (fun a b => POrd.lt a b = true))
    {a b : α} (ha : a ∈ s) (hb : b ∈ s) : s.idxOf a ≤ s.idxOf b ↔ POrd.lt b a = false := by
  rw [← Nat.not_lt, idxOf_lt_idxOf_iff_of_strict hs hb ha]
  simp

/-! ### the rank of a key among the distinct keys -/

/-- the rank used by `partition_molecule_by_attribute`: position of `k` among the sorted distinct keys,
for an arbitrary iteration order `ord` of the set -/
def rankIn (keys : List α) (k : α) : Nat := (sorted keys.dedup).idxOf k

theorem sorted_dedup_strict (keys : List α) :
    (sorted keys.dedup).Pairwise (fun a b => POrd.lt a b = true) :=
  sorted_strict_of_nodup (List.nodup_dedup keys)

omit [LawfulPOrd α] in
theorem sorted_dedup_nodup (keys : List α) : (sorted keys.dedup).Nodup := sorted_nodup (List.nodup_dedup keys)

omit [LawfulPOrd α] in
theorem mem_sorted_dedup {keys : List α} {k : α} : k ∈ sorted keys.dedup ↔ k ∈ keys := by simp

/-- the set's iteration order is irrelevant -/
theorem sorted_setOrder_eq (keys : List α) (ord : List α) (h : ord.Perm keys.dedup) :
    sorted ord = sorted keys.dedup := sorted_perm h

/-- S2: the rank is the number of distinct smaller keys -/
theorem rankIn_eq_card (keys : List α) (k : α) (hk : k ∈ keys) :
    rankIn keys k = ((keys.dedup).filter (fun y => POrd.lt y k)).length := by
  unfold rankIn
  rw [idxOf_eq_countLt_of_strict (sorted_dedup_strict keys) (mem_sorted_dedup.2 hk)]
  exact ((sorted_perm_self keys.dedup).filter _).length_eq

/-- S2: order embedding -/
theorem rankIn_lt_iff (keys : List α) (a b : α) (ha : a ∈ keys) (hb : b ∈ keys) :
    rankIn keys a < rankIn keys b ↔ POrd.lt a b = true :=
  idxOf_lt_idxOf_iff_of_strict (sorted_dedup_strict keys) (mem_sorted_dedup.2 ha) (mem_sorted_dedup.2 hb)

theorem rankIn_le_iff (keys : List α) (a b : α) (ha : a ∈ keys) (hb : b ∈ keys) :
    rankIn keys a ≤ rankIn keys b ↔ POrd.lt b a = false :=
  idxOf_le_idxOf_iff_of_strict (sorted_dedup_strict keys) (mem_sorted_dedup.2 ha) (mem_sorted_dedup.2 hb)

set_option linter.unusedVariables false in
omit [LawfulPOrd α] in
theorem rankIn_inj (keys : List α) (a b : α) (ha : a ∈ keys) (hb : b ∈ keys)
    (h : rankIn keys a = rankIn keys b) : a = b :=
  (List.idxOf_inj (mem_sorted_dedup.2 ha)).1 h

omit [LawfulPOrd α] in
theorem rankIn_eq_iff (keys : List α) (a b : α) (ha : a ∈ keys) :
    rankIn keys a = rankIn keys b ↔ a = b :=
  List.idxOf_inj (mem_sorted_dedup.2 ha)

omit [LawfulPOrd α] in
/-- S2: dense: ranks are exactly `0 .. #distinct-1` -/
theorem rankIn_lt_length (keys : List α) (k : α) (hk : k ∈ keys) : rankIn keys k < keys.dedup.length := by
  have := List.idxOf_lt_length_iff.2 (mem_sorted_dedup.2 hk)
  simpa [rankIn] using this

omit [LawfulPOrd α] in
theorem rankIn_surj (keys : List α) (i : Nat) (hi : i < keys.dedup.length) : ∃ k ∈ keys, rankIn keys k = i := by
  have hi' : i < (sorted keys.dedup).length := by simpa using hi
  refine ⟨(sorted keys.dedup)[i], ?_, ?_⟩
  · exact mem_sorted_dedup.1 (List.getElem_mem hi')
  · exact (sorted_dedup_nodup keys).idxOf_getElem i hi'

omit [LawfulPOrd α] in
/-- the key of rank `rankIn keys k` is `k` -/
theorem getElem?_rankIn (keys : List α) (k : α) (hk : k ∈ keys) :
    (sorted keys.dedup)[rankIn keys k]? = some k :=
  List.getElem?_idxOf (mem_sorted_dedup.2 hk)

/-- S3: the rank depends only on the *set* of keys (hence not on how atoms are numbered or listed) -/
theorem rankIn_congr (keys₁ keys₂ : List α) (h : ∀ x, x ∈ keys₁ ↔ x ∈ keys₂) (k : α) :
    rankIn keys₁ k = rankIn keys₂ k := by
  have p : keys₁.dedup.Perm keys₂.dedup :=
    (List.perm_ext_iff_of_nodup (List.nodup_dedup _) (List.nodup_dedup _)).2 (by simpa using h)
  unfold rankIn
  rw [sorted_perm p]

end rank

/-! ### dict lookups (`Dict.set`, `Dict.ofPairs`)

These live in the namespace `Py.OrderAux` because sibling files (`Spec.GraphLemmas`, `Spec.PartitionLemmas`)
declare lemmas named `Py.Dict.get?_set` etc. and are imported together with this file. -/

namespace OrderAux
open Dict
variable {κ ν : Type} [DecidableEq κ]

theorem lookup_cons_ite (p : κ × ν) (l : List (κ × ν)) (k : κ) :
    (p :: l).lookup k = if k = p.1 then some p.2 else l.lookup k := by
  obtain ⟨a, b⟩ := p
  by_cases h : k = a
  · subst h; simp
  · have : (k == a) = false := beq_eq_false_iff_ne.2 h
    simp [List.lookup_cons, this, h]

theorem lookup_map_replace (l : List (κ × ν)) (k k' : κ) (v : ν) :
    (l.map (fun p => if p.1 = k then (k, v) else p)).lookup k' =
      if k' = k then (l.lookup k).map (fun _ => v) else l.lookup k' := by
  induction l with
  | nil => simp
  | cons p l ih =>
    obtain ⟨a, b⟩ := p
    by_cases hak : a = k <;> by_cases hk' : k' = k <;> by_cases hk'a : k' = a <;>
      simp_all [lookup_cons_ite]

@[simp] theorem get?_empty (k : κ) : (Dict.empty : Dict κ ν).get? k = none := rfl

/-- `d[k] = v; d.get(k')` -/
theorem get?_set (d : Dict κ ν) (k k' : κ) (v : ν) :
    (d.set k v).get? k' = if k' = k then some v else d.get? k' := by
  unfold Dict.set
  split
  · rename_i hc
    simp only [contains, get?] at hc
    simp only [get?, lookup_map_replace]
    split
    · obtain ⟨w, hw⟩ := Option.isSome_iff_exists.1 hc
      simp [hw]
    · rfl
  · rename_i hc
    simp only [contains, get?, Bool.not_eq_true, Option.isSome_eq_false_iff, Option.isNone_iff_eq_none] at hc
    simp only [get?, List.lookup_append]
    split
    · rename_i h; subst h; simp [hc, lookup_cons_ite]
    · rename_i h; simp [h, lookup_cons_ite]

theorem get?_set_self (d : Dict κ ν) (k : κ) (v : ν) : (d.set k v).get? k = some v := by
  simp [get?_set]

theorem get?_set_of_ne (d : Dict κ ν) {k k' : κ} (v : ν) (h : k' ≠ k) : (d.set k v).get? k' = d.get? k' := by
  simp [get?_set, h]

/-- a later assignment wins -/
theorem get?_foldl_set (l : List (κ × ν)) (d : Dict κ ν) (k : κ) :
    (l.foldl (fun d p => d.set p.1 p.2) d).get? k = (l.reverse.lookup k).or (d.get? k) := by
  induction l generalizing d with
  | nil => simp
  | cons p l ih =>
    simp only [List.foldl_cons, ih, get?_set, List.reverse_cons, List.lookup_append, lookup_cons_ite,
      List.lookup_nil]
    cases List.lookup k l.reverse <;> by_cases h : k = p.1 <;> simp [h]

theorem get?_ofPairs (l : List (κ × ν)) (k : κ) : (ofPairs l).get? k = l.reverse.lookup k := by
  simp [ofPairs, get?_foldl_set]

theorem get?_updatePairs (d : Dict κ ν) (l : List (κ × ν)) (k : κ) :
    (d.updatePairs l).get? k = (l.reverse.lookup k).or (d.get? k) := get?_foldl_set l d k

theorem get?_update (d e : Dict κ ν) (k : κ) :
    (d.update e).get? k = (e.items.reverse.lookup k).or (d.get? k) := get?_foldl_set e.items d k

theorem lookup_reverse_of_nodup (l : List (κ × ν)) (hnd : (l.map Prod.fst).Nodup) (k : κ) :
    l.reverse.lookup k = l.lookup k := by
  induction l with
  | nil => rfl
  | cons p l ih =>
    rw [List.map_cons, List.nodup_cons] at hnd
    obtain ⟨hp, hl⟩ := hnd
    rw [List.reverse_cons, List.lookup_append, ih hl]
    obtain ⟨a, b⟩ := p
    by_cases h : k = a
    · subst h
      have : l.lookup k = none := by
        rw [List.lookup_eq_none_iff]
        intro q hq
        simp only [bne_iff_ne, ne_eq]
        intro e
        exact hp (show k ∈ l.map Prod.fst from e ▸ List.mem_map_of_mem (f := Prod.fst) hq)
      simp [this, lookup_cons_ite]
    · simp [lookup_cons_ite, h]

/-- with pairwise distinct keys, `dict(pairs)` looks up like the association list -/
theorem get?_ofPairs_of_nodup (l : List (κ × ν)) (hnd : (l.map Prod.fst).Nodup) (k : κ) :
    (ofPairs l).get? k = l.lookup k := by
  rw [get?_ofPairs, lookup_reverse_of_nodup l hnd]

theorem foldl_set_of_nodup (l : List (κ × ν)) (d : Dict κ ν) (hnd : (l.map Prod.fst).Nodup)
    (hd : ∀ p ∈ l, d.get? p.1 = none) :
    l.foldl (fun d p => d.set p.1 p.2) d = ⟨d.items ++ l⟩ := by
  induction l generalizing d with
  | nil => simp
  | cons p l ih =>
    rw [List.map_cons, List.nodup_cons] at hnd
    obtain ⟨hp, hl⟩ := hnd
    have h1 : d.set p.1 p.2 = ⟨d.items ++ [p]⟩ := by
      have := hd p (by simp)
      simp [Dict.set, Dict.contains, this]
    rw [List.foldl_cons, h1, ih _ hl]
    · simp
    · intro q hq
      have hq' := hd q (by simp [hq])
      have hne : q.1 ≠ p.1 := by
        intro e; exact hp (e ▸ List.mem_map_of_mem (f := Prod.fst) hq)
      simp only [get?] at hq' ⊢
      simp [List.lookup_append, hq', hne]

/-- with pairwise distinct keys, `dict(pairs)` is the list of pairs, in order -/
theorem ofPairs_of_nodup (l : List (κ × ν)) (hnd : (l.map Prod.fst).Nodup) : ofPairs l = ⟨l⟩ := by
  rw [ofPairs, foldl_set_of_nodup l empty hnd (fun _ _ => rfl)]
  simp [empty]

end OrderAux

/-! ### `dict(zip(xs, range(len(xs))))` -/

namespace OrderAux
variable {α : Type} [DecidableEq α]

theorem lookup_zip_idxOf {β : Type} (s : List α) (vs : List β) (hlen : s.length ≤ vs.length) {k : α}
    (hk : k ∈ s) : (List.zip s vs).lookup k = vs[s.idxOf k]? := by
  induction s generalizing vs with
  | nil => simp at hk
  | cons x t ih =>
    cases vs with
    | nil => simp at hlen
    | cons v vs =>
      by_cases h : k = x
      · subst h; simp [lookup_cons_ite]
      · have hk' : k ∈ t := by
          rcases List.mem_cons.1 hk with e | e
          · exact absurd e h
          · exact e
        have hlen' : t.length ≤ vs.length := by simpa using hlen
        rw [List.zip_cons_cons, List.idxOf_cons_ne _ (Ne.symm h)]
        simp [lookup_cons_ite, h, ih vs hlen' hk']

theorem lookup_zip_of_not_mem {β : Type} (s : List α) (vs : List β) {k : α} (hk : k ∉ s) :
    (List.zip s vs).lookup k = none := by
  rw [List.lookup_eq_none_iff]
  rintro ⟨a, b⟩ hp
  have := (List.of_mem_zip hp).1
  simp only [bne_iff_ne, ne_eq]
  rintro rfl
  exact hk this

end OrderAux

section rankdict
variable {α : Type} [DecidableEq α]
open OrderAux

/-- `dict(zip(s, range(len(s))))` for duplicate-free `s` maps each element to its position -/
theorem get?_zip_range_of_nodup {s : List α} (hnd : s.Nodup) (k : α) :
    (Dict.ofPairs (zip s (range (pyLen s)))).get? k =
      if k ∈ s then some (Int.ofNat (s.idxOf k)) else none := by
  have hlen : (range (pyLen s)).length = s.length := by simp [range]
  rw [OrderAux.get?_ofPairs_of_nodup]
  · unfold zip
    split
    · rename_i hk
      rw [lookup_zip_idxOf _ _ (by omega) hk]
      have : s.idxOf k < s.length := List.idxOf_lt_length_iff.2 hk
      simp [range, this]
    · rename_i hk
      exact lookup_zip_of_not_mem _ _ hk
  · unfold zip
    rw [List.map_fst_zip (by omega)]
    exact hnd

/-- … and as a value: the dict is the list of `(element, position)` pairs in order -/
theorem ofPairs_zip_range_of_nodup {s : List α} (hnd : s.Nodup) :
    Dict.ofPairs (zip s (range (pyLen s))) = ⟨List.zip s (range (pyLen s))⟩ := by
  have hlen : (range (pyLen s)).length = s.length := by simp [range]
  apply OrderAux.ofPairs_of_nodup
  unfold zip
  rw [List.map_fst_zip (by omega)]
  exact hnd

variable [POrd α] [LawfulPOrd α]

/-- the dict built by `dict(zip(sorted(set(keys)), range(n)))` maps each key to its rank -/
theorem rank_dict_lookup (keys ord : List α) (h : ord.Perm keys.dedup) (k : α) (hk : k ∈ keys) :
    (Dict.ofPairs (zip (sorted ord) (range (pyLen (sorted ord))))).get? k = some (Int.ofNat (rankIn keys k)) := by
  rw [sorted_perm h, get?_zip_range_of_nodup (sorted_dedup_nodup keys), if_pos (mem_sorted_dedup.2 hk)]
  rfl

/-- keys outside the set are absent from the rank dict -/
theorem rank_dict_lookup_none (keys ord : List α) (h : ord.Perm keys.dedup) (k : α) (hk : k ∉ keys) :
    (Dict.ofPairs (zip (sorted ord) (range (pyLen (sorted ord))))).get? k = none := by
  rw [sorted_perm h, get?_zip_range_of_nodup (sorted_dedup_nodup keys),
    if_neg (fun hm => hk (mem_sorted_dedup.1 hm))]

end rankdict

end Py

#print axioms Py.sorted_perm
#print axioms Py.rankIn_eq_card
#print axioms Py.rankIn_congr
#print axioms Py.rank_dict_lookup
#print axioms Py.sortedRev_eq_reverse_sorted
#print axioms Py.sortedKey_perm
#print axioms Py.OrderAux.get?_ofPairs
#print axioms Py.instLawfulPOrdVal
