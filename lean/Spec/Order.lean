/-
Spec.Order — Python's `<` on the modelled value types is a strict total order, and the facts
about `sorted` that follow (S1–S3 of DESIGN.md §5). Code-independent.
-/
import PyModel.Ops
set_option autoImplicit false

namespace Py

/-- `POrd.lt` is a strict total order -/
class LawfulPOrd (α : Type) [POrd α] : Prop where
  irrefl : ∀ a : α, POrd.lt a a = false
  trans : ∀ a b c : α, POrd.lt a b = true → POrd.lt b c = true → POrd.lt a c = true
  total : ∀ a b : α, a ≠ b → POrd.lt a b = true ∨ POrd.lt b a = true

instance : LawfulPOrd Int := sorry
instance : LawfulPOrd Char := sorry
instance : LawfulPOrd Bool := sorry
instance {α} [POrd α] [LawfulPOrd α] : LawfulPOrd (List α) := sorry
instance {α β} [POrd α] [POrd β] [LawfulPOrd α] [LawfulPOrd β] : LawfulPOrd (α × β) := sorry
instance : LawfulPOrd Sc := sorry
instance : LawfulPOrd Val := sorry

variable {α : Type} [POrd α] [LawfulPOrd α]

/-- S1: `sorted` depends only on the multiset of its argument -/
theorem sorted_perm {l₁ l₂ : List α} (h : l₁.Perm l₂) : sorted l₁ = sorted l₂ := sorry
theorem sorted_perm_self (l : List α) : (sorted l).Perm l := sorry
theorem sorted_pairwise (l : List α) : (sorted l).Pairwise (fun a b => POrd.lt b a = false) := sorry
theorem sortedRev_perm {l₁ l₂ : List α} (h : l₁.Perm l₂) : sortedRev l₁ = sortedRev l₂ := sorry
theorem sortedRev_perm_self (l : List α) : (sortedRev l).Perm l := sorry

/-- `sorted` of a duplicate-free list is strictly ascending -/
theorem sorted_strict_of_nodup {l : List α} (h : l.Nodup) : (sorted l).Pairwise (fun a b => POrd.lt a b = true) := sorry

variable [DecidableEq α]

/-- the rank used by `partition_molecule_by_attribute`: position of `k` among the sorted distinct keys,
for an arbitrary iteration order `ord` of the set -/
def rankIn (keys : List α) (k : α) : Nat := (sorted keys.dedup).idxOf k

/-- the set's iteration order is irrelevant -/
theorem sorted_setOrder_eq (keys : List α) (ord : List α) (h : ord.Perm keys.dedup) :
    sorted ord = sorted keys.dedup := sorted_perm h

/-- S2: the rank is the number of distinct smaller keys -/
theorem rankIn_eq_card (keys : List α) (k : α) (hk : k ∈ keys) :
    rankIn keys k = ((keys.dedup).filter (fun y => POrd.lt y k)).length := sorry

/-- S2: order embedding -/
theorem rankIn_lt_iff (keys : List α) (a b : α) (ha : a ∈ keys) (hb : b ∈ keys) :
    rankIn keys a < rankIn keys b ↔ POrd.lt a b = true := sorry
theorem rankIn_inj (keys : List α) (a b : α) (ha : a ∈ keys) (hb : b ∈ keys) (h : rankIn keys a = rankIn keys b) : a = b := sorry
/-- S2: dense: ranks are exactly `0 .. #distinct-1` -/
theorem rankIn_lt_length (keys : List α) (k : α) (hk : k ∈ keys) : rankIn keys k < keys.dedup.length := sorry
theorem rankIn_surj (keys : List α) (i : Nat) (hi : i < keys.dedup.length) : ∃ k ∈ keys, rankIn keys k = i := sorry

/-- S3: the rank depends only on the *set* of keys (hence not on how atoms are numbered or listed) -/
theorem rankIn_congr (keys₁ keys₂ : List α) (h : ∀ x, x ∈ keys₁ ↔ x ∈ keys₂) (k : α) :
    rankIn keys₁ k = rankIn keys₂ k := sorry

/-- the dict built by `dict(zip(sorted(set(keys)), range(n)))` maps each key to its rank -/
theorem rank_dict_lookup (keys ord : List α) (h : ord.Perm keys.dedup) (k : α) (hk : k ∈ keys) :
    (Dict.ofPairs (zip (sorted ord) (range (pyLen (sorted ord))))).get? k = some (Int.ofNat (rankIn keys k)) := sorry

end Py
