/-
Spec.GraphView — abstract view of the networkx model: what a molecule graph *is* independently of
node / adjacency / attribute-dict iteration orders (DESIGN.md §5). Definitions only; lemmas live in
Spec/GraphLemmas.lean.
-/
import PyModel.Ops
set_option autoImplicit false

namespace Py

/-- dict representation invariant: keys are unique (every dict built by the model's operations has it) -/
def Dict.WF {κ ν : Type} (d : Dict κ ν) : Prop := d.keys.Nodup

namespace Graph

/-- attribute `k` of node `n` -/
def attr (g : Graph) (n : Int) (k : String) : Option Val := (g.node.get? n).bind (·.get? k)
/-- neighbours of `n` in adjacency iteration order (empty if `n` is not a node) -/
def nbrs (g : Graph) (n : Int) : List Int := ((g.adj.get? n).map Dict.keys).getD []
/-- data of the bond between `u` and `v` -/
def edgeAttrs (g : Graph) (u v : Int) : Option Attrs := (g.adj.get? u).bind (·.get? v)

/-- representation invariant of a networkx `Graph` (simple, undirected) -/
structure WF (g : Graph) : Prop where
  node_wf : g.node.WF
  adj_wf : g.adj.WF
  adj_keys : g.adj.keys = g.node.keys
  attrs_wf : ∀ n a, g.node.get? n = some a → a.WF
  nbr_wf : ∀ u d, g.adj.get? u = some d → d.WF
  nbr_mem : ∀ u v, v ∈ g.nbrs u → v ∈ g.nodeList
  symm : ∀ u v a, g.edgeAttrs u v = some a → g.edgeAttrs v u = some a
  eattrs_wf : ∀ u v a, g.edgeAttrs u v = some a → a.WF

/-- no self-loops (molecules) -/
def Loopless (g : Graph) : Prop := ∀ u, u ∉ g.nbrs u

/-- attribute dicts compared as finite maps -/
def AttrsEq (a b : Attrs) : Prop := ∀ k, a.get? k = b.get? k

/-- `h` is `g` with every node `n` renamed to `π n` (`π` injective on the nodes of `g`): same nodes,
every node attribute and every bond with its data carried along. Iteration orders are unconstrained. -/
structure IsRelabel (π : Int → Int) (g h : Graph) : Prop where
  inj : ∀ a ∈ g.nodeList, ∀ b ∈ g.nodeList, π a = π b → a = b
  nodes : h.nodeList.Perm (g.nodeList.map π)
  attrs : ∀ n ∈ g.nodeList, ∀ k, h.attr (π n) k = g.attr n k
  nbrs : ∀ n ∈ g.nodeList, (h.nbrs (π n)).Perm ((g.nbrs n).map π)
  eattrs : ∀ u ∈ g.nodeList, ∀ v ∈ g.nodeList, ∀ a, g.edgeAttrs u v = some a →
    ∃ b, h.edgeAttrs (π u) (π v) = some b ∧ AttrsEq a b

/-- same labelled graph (possibly different iteration orders) -/
def Same (g h : Graph) : Prop := IsRelabel id g h

/-- like `IsRelabel` but only the attribute `key` has to be carried (colour-preserving isomorphism) -/
structure IsIsoOn (key : String) (π : Int → Int) (g h : Graph) : Prop where
  inj : ∀ a ∈ g.nodeList, ∀ b ∈ g.nodeList, π a = π b → a = b
  nodes : h.nodeList.Perm (g.nodeList.map π)
  attr : ∀ n ∈ g.nodeList, h.attr (π n) key = g.attr n key
  nbrs : ∀ n ∈ g.nodeList, (h.nbrs (π n)).Perm ((g.nbrs n).map π)

end Graph
end Py
