/-
Spec.GraphLemmas — code-independent lemmas about the `Dict` and networkx `Graph` models
(PyModel.Basic, PyModel.Nx) in terms of the abstract view of Spec.GraphView.
-/
import Spec.GraphView
set_option autoImplicit false

namespace Py

/-! ## association lists -/

section AList
variable {κ ν : Type} [DecidableEq κ]

theorem lookup_cons' (k a : κ) (b : ν) (l : List (κ × ν)) :
    List.lookup k ((a, b) :: l) = if k = a then some b else List.lookup k l := by
  by_cases h : k = a
  · subst h; simp [List.lookup]
  · have : (k == a) = false := by simpa using h
    simp [List.lookup, this, h]

theorem lookup_isSome_iff (l : List (κ × ν)) (k : κ) :
    (List.lookup k l).isSome = true ↔ k ∈ l.map Prod.fst := by
  induction l with
  | nil => simp
  | cons p l ih =>
    obtain ⟨a, b⟩ := p
    rw [lookup_cons']
    by_cases h : k = a
    · simp [h]
    · simp [h, ih]

theorem lookup_eq_none_iff' (l : List (κ × ν)) (k : κ) :
    List.lookup k l = none ↔ k ∉ l.map Prod.fst := by
  rw [← lookup_isSome_iff]; cases List.lookup k l <;> simp

theorem lookup_append' (l₁ l₂ : List (κ × ν)) (k : κ) :
    List.lookup k (l₁ ++ l₂) = (List.lookup k l₁).or (List.lookup k l₂) := by
  induction l₁ with
  | nil => simp
  | cons p l ih =>
    obtain ⟨a, b⟩ := p
    rw [List.cons_append, lookup_cons', lookup_cons']
    by_cases h : k = a <;> simp [h, ih]

theorem lookup_mem (l : List (κ × ν)) (k : κ) (v : ν) (h : List.lookup k l = some v) : (k, v) ∈ l := by
  induction l with
  | nil => simp at h
  | cons p l ih =>
    obtain ⟨a, b⟩ := p
    rw [lookup_cons'] at h
    by_cases hk : k = a
    · simp [hk] at h; simp [hk, h]
    · simp [hk] at h; simp [ih h]

theorem lookup_of_mem_nodup (l : List (κ × ν)) (k : κ) (v : ν) (hn : (l.map Prod.fst).Nodup)
    (h : (k, v) ∈ l) : List.lookup k l = some v := by
  induction l with
  | nil => simp at h
  | cons p l ih =>
    obtain ⟨a, b⟩ := p
    rw [lookup_cons']
    simp only [List.map_cons, List.nodup_cons] at hn
    rcases List.mem_cons.1 h with h1 | h1
    · simp at h1; simp [h1.1, h1.2]
    · have : k ≠ a := by
        rintro rfl; exact hn.1 (List.mem_map.2 ⟨(k, v), h1, rfl⟩)
      simp [this, ih hn.2 h1]

/-- lookup through an injective renaming of the keys -/
theorem lookup_map_inj {κ' : Type} [DecidableEq κ'] (l : List (κ × ν)) (f : κ → κ') (k : κ)
    (hinj : ∀ a ∈ l.map Prod.fst, f a = f k → a = k) :
    List.lookup (f k) (l.map (fun p => (f p.1, p.2))) = List.lookup k l := by
  induction l with
  | nil => simp
  | cons p l ih =>
    obtain ⟨a, b⟩ := p
    simp only [List.map_cons]
    rw [lookup_cons', lookup_cons']
    have ih' := ih (fun x hx => hinj x (by simp at hx ⊢; exact Or.inr hx))
    by_cases h : k = a
    · simp [h]
    · have : f k ≠ f a := fun e => h (hinj a (by simp) e.symm).symm
      simp [h, this, ih']

theorem lookup_map_snd {ν' : Type} (l : List (κ × ν)) (f : κ → ν → ν') (k : κ) :
    List.lookup k (l.map (fun p => (p.1, f p.1 p.2))) = (List.lookup k l).map (f k) := by
  induction l with
  | nil => simp
  | cons p l ih =>
    obtain ⟨a, b⟩ := p
    simp only [List.map_cons]
    rw [lookup_cons', lookup_cons']
    by_cases h : k = a <;> simp [h, ih]

theorem alist_ext (l₁ l₂ : List (κ × ν)) (hd : (l₁.map Prod.fst).Nodup)
    (hk : l₁.map Prod.fst = l₂.map Prod.fst) (hg : ∀ k, List.lookup k l₁ = List.lookup k l₂) : l₁ = l₂ := by
  induction l₁ generalizing l₂ with
  | nil => cases l₂ <;> simp_all
  | cons p l₁ ih =>
    cases l₂ with
    | nil => simp at hk
    | cons q l₂ =>
      obtain ⟨a, b⟩ := p; obtain ⟨a', b'⟩ := q
      simp only [List.map_cons, List.cons.injEq] at hk
      obtain ⟨rfl, hk⟩ := hk
      simp only [List.map_cons, List.nodup_cons] at hd
      have hb : b = b' := by simpa [lookup_cons'] using hg a
      subst hb
      congr 1
      refine ih l₂ hd.2 hk (fun k => ?_)
      by_cases hka : k = a
      · subst hka
        rw [(lookup_eq_none_iff' l₁ k).2 hd.1, (lookup_eq_none_iff' l₂ k).2 (hk ▸ hd.1)]
      · simpa [lookup_cons', hka] using hg k

theorem lookup_filter_ne (l : List (κ × ν)) (k k' : κ) :
    List.lookup k' (l.filter (fun p => decide (p.1 ≠ k))) = if k' = k then none else List.lookup k' l := by
  induction l with
  | nil => simp
  | cons p l ih =>
    obtain ⟨a, b⟩ := p
    by_cases ha : a = k
    · have : List.filter (fun p : κ × ν => decide (p.1 ≠ k)) ((a, b) :: l)
          = List.filter (fun p => decide (p.1 ≠ k)) l := by simp [ha]
      rw [this, ih, lookup_cons']
      by_cases h : k' = k
      · simp [h]
      · simp [h, ha]
    · have : List.filter (fun p : κ × ν => decide (p.1 ≠ k)) ((a, b) :: l)
          = (a, b) :: List.filter (fun p => decide (p.1 ≠ k)) l := by simp [ha]
      rw [this, lookup_cons', ih, lookup_cons']
      by_cases h : k' = a
      · subst h; simp [ha]
      · simp [h]

theorem lookup_zip_idxOf {ν : Type} (ks : List κ) (vs : List ν) (k : κ) (hl : ks.length = vs.length) :
    List.lookup k (List.zip ks vs) = vs[ks.idxOf k]? := by
  induction ks generalizing vs with
  | nil => cases vs <;> simp_all
  | cons a ks ih =>
    cases vs with
    | nil => simp at hl
    | cons b vs =>
      simp only [List.zip_cons_cons]
      rw [lookup_cons', List.idxOf_cons]
      by_cases h : k = a
      · simp [h]
      · have : (a == k) = false := by simpa using fun e => h e.symm
        simp [h, this, ih vs (by simpa using hl)]

end AList

/-! ## Dict -/

namespace Dict
variable {κ ν : Type}
@[simp] theorem keys_mk (l : List (κ × ν)) : (⟨l⟩ : Dict κ ν).keys = l.map Prod.fst := rfl
@[simp] theorem keys_empty : (Dict.empty : Dict κ ν).keys = [] := rfl
@[simp] theorem WF_empty : (Dict.empty : Dict κ ν).WF := by simp [Dict.WF]
theorem WF_mk (l : List (κ × ν)) : (⟨l⟩ : Dict κ ν).WF ↔ (l.map Prod.fst).Nodup := Iff.rfl
variable [DecidableEq κ]

@[simp] theorem get?_mk (l : List (κ × ν)) (k : κ) : (⟨l⟩ : Dict κ ν).get? k = List.lookup k l := rfl
@[simp] theorem get?_empty (k : κ) : (Dict.empty : Dict κ ν).get? k = none := rfl

/-- `k in d` ↔ `k` is one of the keys -/
theorem contains_iff (d : Dict κ ν) (k : κ) : d.contains k = true ↔ k ∈ d.keys := by
  unfold contains get? keys; exact lookup_isSome_iff _ _

theorem get?_isSome_iff (d : Dict κ ν) (k : κ) : (d.get? k).isSome = true ↔ k ∈ d.keys :=
  contains_iff d k

theorem get?_eq_none_iff (d : Dict κ ν) (k : κ) : d.get? k = none ↔ k ∉ d.keys := by
  unfold get? keys; exact lookup_eq_none_iff' _ _

theorem mem_keys_of_get? {d : Dict κ ν} {k : κ} {v : ν} (h : d.get? k = some v) : k ∈ d.keys := by
  rw [← get?_isSome_iff, h]; rfl

theorem exists_get?_of_mem_keys {d : Dict κ ν} {k : κ} (h : k ∈ d.keys) : ∃ v, d.get? k = some v := by
  rw [← get?_isSome_iff] at h; exact Option.isSome_iff_exists.1 h

theorem mem_items_of_get? {d : Dict κ ν} {k : κ} {v : ν} (h : d.get? k = some v) : (k, v) ∈ d.items :=
  lookup_mem _ _ _ h

theorem get?_of_mem_items {d : Dict κ ν} (hd : d.WF) {k : κ} {v : ν} (h : (k, v) ∈ d.items) :
    d.get? k = some v := lookup_of_mem_nodup _ _ _ hd h

/-! ### `set` -/

private theorem lookup_map_set_ne (l : List (κ × ν)) (k k' : κ) (v : ν) (h : k' ≠ k) :
    List.lookup k' (l.map (fun p => if p.1 = k then (k, v) else p)) = List.lookup k' l := by
  induction l with
  | nil => simp
  | cons p l ih =>
    obtain ⟨a, b⟩ := p
    simp only [List.map_cons]
    by_cases ha : a = k
    · subst ha; simp [lookup_cons', h, ih]
    · simp only [ha, if_false, lookup_cons', ih]

private theorem lookup_map_set_eq (l : List (κ × ν)) (k : κ) (v : ν) (h : (List.lookup k l).isSome = true) :
    List.lookup k (l.map (fun p => if p.1 = k then (k, v) else p)) = some v := by
  induction l with
  | nil => simp at h
  | cons p l ih =>
    obtain ⟨a, b⟩ := p
    simp only [List.map_cons]
    by_cases ha : a = k
    · subst ha; simp
    · have hk : k ≠ a := fun e => ha e.symm
      rw [lookup_cons'] at h
      simp only [hk, if_false] at h
      simp only [ha, if_false, lookup_cons', hk, ih h]

/-- `get?` after `set`, same key or other key -/
theorem get?_set (d : Dict κ ν) (k k' : κ) (v : ν) :
    (d.set k v).get? k' = if k' = k then some v else d.get? k' := by
  unfold set
  by_cases hc : d.contains k = true
  · rw [if_pos hc]
    by_cases h : k' = k
    · subst h; rw [if_pos rfl]; exact lookup_map_set_eq d.items k' v hc
    · rw [if_neg h]; exact lookup_map_set_ne d.items k k' v h
  · rw [if_neg hc]
    have hn : d.get? k = none := by
      unfold contains at hc; cases hg : d.get? k <;> simp_all
    by_cases h : k' = k
    · subst h
      simp only [get?_mk, lookup_append']
      unfold get? at hn; simp [hn]
    · simp only [get?_mk, lookup_append', if_neg h, lookup_cons']
      unfold get?; cases List.lookup k' d.items <;> simp

@[simp] theorem get?_set_self (d : Dict κ ν) (k : κ) (v : ν) : (d.set k v).get? k = some v := by
  simp [get?_set]
theorem get?_set_ne (d : Dict κ ν) {k k' : κ} (v : ν) (h : k' ≠ k) : (d.set k v).get? k' = d.get? k' := by
  simp [get?_set, h]

private theorem map_fst_map_set (l : List (κ × ν)) (k : κ) (v : ν) :
    (l.map (fun p => if p.1 = k then (k, v) else p)).map Prod.fst = l.map Prod.fst := by
  induction l with
  | nil => rfl
  | cons p l ih =>
    simp only [List.map_cons, ih]
    by_cases h : p.1 = k <;> simp [h]

/-- `keys` after `set`: unchanged if the key is present, appended otherwise -/
theorem keys_set (d : Dict κ ν) (k : κ) (v : ν) :
    (d.set k v).keys = if k ∈ d.keys then d.keys else d.keys ++ [k] := by
  unfold set
  by_cases hc : d.contains k = true
  · rw [if_pos hc, if_pos ((contains_iff d k).1 hc)]
    exact map_fst_map_set _ _ _
  · rw [if_neg hc, if_neg (fun h => hc ((contains_iff d k).2 h))]
    simp [keys]

theorem keys_set_of_mem (d : Dict κ ν) {k : κ} (v : ν) (h : k ∈ d.keys) : (d.set k v).keys = d.keys := by
  simp [keys_set, h]
theorem keys_set_of_not_mem (d : Dict κ ν) {k : κ} (v : ν) (h : k ∉ d.keys) :
    (d.set k v).keys = d.keys ++ [k] := by
  simp [keys_set, h]

theorem items_set_of_not_mem (d : Dict κ ν) {k : κ} (v : ν) (h : k ∉ d.keys) :
    (d.set k v).items = d.items ++ [(k, v)] := by
  unfold set
  rw [if_neg (fun hc => h ((contains_iff d k).1 hc))]

theorem mem_keys_set (d : Dict κ ν) (k k' : κ) (v : ν) : k' ∈ (d.set k v).keys ↔ k' = k ∨ k' ∈ d.keys := by
  rw [keys_set]; by_cases h : k ∈ d.keys
  · rw [if_pos h]; constructor
    · exact Or.inr
    · rintro (rfl | h') <;> assumption
  · rw [if_neg h]; simp [or_comm]

theorem WF_set {d : Dict κ ν} (hd : d.WF) (k : κ) (v : ν) : (d.set k v).WF := by
  unfold WF at *
  rw [keys_set]; by_cases h : k ∈ d.keys
  · rwa [if_pos h]
  · rw [if_neg h, List.nodup_append_comm]; exact List.nodup_cons.2 ⟨h, hd⟩

/-- two well-formed dicts with the same key order and the same lookups are equal -/
theorem ext_keys_get? {d e : Dict κ ν} (hd : d.WF) (hk : d.keys = e.keys) (hg : ∀ k, d.get? k = e.get? k) :
    d = e := by
  obtain ⟨l₁⟩ := d; obtain ⟨l₂⟩ := e
  congr 1
  exact alist_ext l₁ l₂ hd hk hg

theorem set_eq_self {d : Dict κ ν} (hd : d.WF) {k : κ} {v : ν} (h : d.get? k = some v) : d.set k v = d := by
  refine ext_keys_get? (WF_set hd k v) (keys_set_of_mem d v (mem_keys_of_get? h)) (fun k' => ?_)
  rw [get?_set]; by_cases hk : k' = k
  · subst hk; simp [h]
  · simp [hk]

/-! ### `updatePairs`, `update`, `ofPairs` (all are folds of `set`) -/

theorem update_eq_updatePairs (d e : Dict κ ν) : d.update e = d.updatePairs e.items := rfl
theorem ofPairs_eq_updatePairs (l : List (κ × ν)) : ofPairs l = (Dict.empty : Dict κ ν).updatePairs l := rfl
@[simp] theorem updatePairs_nil (d : Dict κ ν) : d.updatePairs [] = d := rfl
@[simp] theorem updatePairs_cons (d : Dict κ ν) (p : κ × ν) (l : List (κ × ν)) :
    d.updatePairs (p :: l) = (d.set p.1 p.2).updatePairs l := rfl
theorem updatePairs_append (d : Dict κ ν) (l₁ l₂ : List (κ × ν)) :
    d.updatePairs (l₁ ++ l₂) = (d.updatePairs l₁).updatePairs l₂ := by
  simp [updatePairs, List.foldl_append]

theorem WF_updatePairs {d : Dict κ ν} (hd : d.WF) (l : List (κ × ν)) : (d.updatePairs l).WF := by
  induction l generalizing d with
  | nil => exact hd
  | cons p l ih => exact ih (WF_set hd _ _)
theorem WF_update {d : Dict κ ν} (hd : d.WF) (e : Dict κ ν) : (d.update e).WF := WF_updatePairs hd _
theorem WF_ofPairs (l : List (κ × ν)) : (ofPairs l).WF := WF_updatePairs WF_empty _

theorem mem_keys_updatePairs (d : Dict κ ν) (l : List (κ × ν)) (k : κ) :
    k ∈ (d.updatePairs l).keys ↔ k ∈ d.keys ∨ k ∈ l.map Prod.fst := by
  induction l generalizing d with
  | nil => simp
  | cons p l ih =>
    rw [updatePairs_cons, ih, mem_keys_set]; simp only [List.map_cons, List.mem_cons]; tauto

theorem keys_updatePairs_of_subset (d : Dict κ ν) (l : List (κ × ν)) (h : ∀ p ∈ l, p.1 ∈ d.keys) :
    (d.updatePairs l).keys = d.keys := by
  induction l generalizing d with
  | nil => rfl
  | cons p l ih =>
    have hp := h p (by simp)
    rw [updatePairs_cons, ih, keys_set_of_mem _ _ hp]
    intro q hq; rw [keys_set_of_mem _ _ hp]; exact h q (by simp [hq])

theorem keys_updatePairs_of_nodup (d : Dict κ ν) (l : List (κ × ν)) (h : (d.keys ++ l.map Prod.fst).Nodup) :
    (d.updatePairs l).keys = d.keys ++ l.map Prod.fst := by
  induction l generalizing d with
  | nil => simp
  | cons p l ih =>
    have hp : p.1 ∉ d.keys := by
      intro hm; exact (List.nodup_append.1 h).2.2 _ hm _ (by simp) rfl
    rw [updatePairs_cons, ih, keys_set_of_not_mem _ _ hp]
    · simp
    · rw [keys_set_of_not_mem _ _ hp]; simpa using h

theorem get?_updatePairs_of_not_mem (d : Dict κ ν) (l : List (κ × ν)) (k : κ) (h : k ∉ l.map Prod.fst) :
    (d.updatePairs l).get? k = d.get? k := by
  induction l generalizing d with
  | nil => rfl
  | cons p l ih =>
    simp only [List.map_cons, List.mem_cons, not_or] at h
    rw [updatePairs_cons, ih _ h.2, get?_set_ne _ _ h.1]

/-- for distinct new keys, the pairs override the old entries -/
theorem get?_updatePairs_of_nodup (d : Dict κ ν) (l : List (κ × ν)) (k : κ) (h : (l.map Prod.fst).Nodup) :
    (d.updatePairs l).get? k = (List.lookup k l).or (d.get? k) := by
  induction l generalizing d with
  | nil => simp
  | cons p l ih =>
    obtain ⟨a, b⟩ := p
    simp only [List.map_cons, List.nodup_cons] at h
    rw [updatePairs_cons, ih _ h.2, lookup_cons', get?_set]
    by_cases hk : k = a
    · subst hk; simp [(lookup_eq_none_iff' l k).2 h.1]
    · simp [hk]

theorem get?_update (d : Dict κ ν) {e : Dict κ ν} (he : e.WF) (k : κ) :
    (d.update e).get? k = (e.get? k).or (d.get? k) := get?_updatePairs_of_nodup d e.items k he

theorem keys_ofPairs_of_nodup (l : List (κ × ν)) (h : (l.map Prod.fst).Nodup) :
    (ofPairs l).keys = l.map Prod.fst := by
  rw [ofPairs_eq_updatePairs, keys_updatePairs_of_nodup]
  · simp
  · simpa using h

theorem get?_ofPairs_of_nodup (l : List (κ × ν)) (k : κ) (h : (l.map Prod.fst).Nodup) :
    (ofPairs l).get? k = List.lookup k l := by
  rw [ofPairs_eq_updatePairs, get?_updatePairs_of_nodup _ _ _ h]; simp

theorem ofPairs_of_nodup (l : List (κ × ν)) (h : (l.map Prod.fst).Nodup) : ofPairs l = ⟨l⟩ :=
  ext_keys_get? (WF_ofPairs l) (keys_ofPairs_of_nodup l h) (fun k => get?_ofPairs_of_nodup l k h)

/-- copying a well-formed dict (`dict(d)`, `{}.update(d)`) gives the same dict -/
theorem ofPairs_items {d : Dict κ ν} (hd : d.WF) : ofPairs d.items = d := ofPairs_of_nodup _ hd
theorem empty_update {d : Dict κ ν} (hd : d.WF) : (Dict.empty : Dict κ ν).update d = d := ofPairs_items hd

theorem updatePairs_eq_self {d : Dict κ ν} (hd : d.WF) (l : List (κ × ν))
    (h : ∀ p ∈ l, d.get? p.1 = some p.2) : d.updatePairs l = d := by
  induction l with
  | nil => rfl
  | cons p l ih =>
    rw [updatePairs_cons, set_eq_self hd (h p (by simp))]
    exact ih (fun q hq => h q (by simp [hq]))

theorem update_self {d : Dict κ ν} (hd : d.WF) : d.update d = d :=
  updatePairs_eq_self hd _ (fun p hp => get?_of_mem_items hd (by simpa using hp))

/-! ### `dict(zip(ks, vs))` -/

theorem keys_ofPairs_zip {ks : List κ} {vs : List ν} (hn : ks.Nodup) (hl : ks.length = vs.length) :
    (ofPairs (zip ks vs)).keys = ks := by
  have : (List.zip ks vs).map Prod.fst = ks := List.map_fst_zip (le_of_eq hl)
  have hn' : ((List.zip ks vs).map Prod.fst).Nodup := by rw [this]; exact hn
  show (ofPairs (List.zip ks vs)).keys = ks
  rw [keys_ofPairs_of_nodup _ hn', this]

theorem get?_ofPairs_zip {ks : List κ} {vs : List ν} (hn : ks.Nodup) (hl : ks.length = vs.length) (k : κ) :
    (ofPairs (zip ks vs)).get? k = vs[ks.idxOf k]? := by
  have : (List.zip ks vs).map Prod.fst = ks := List.map_fst_zip (le_of_eq hl)
  have hn' : ((List.zip ks vs).map Prod.fst).Nodup := by rw [this]; exact hn
  show (ofPairs (List.zip ks vs)).get? k = vs[ks.idxOf k]?
  rw [get?_ofPairs_of_nodup _ _ hn', lookup_zip_idxOf _ _ _ hl]

theorem get?_ofPairs_zip_of_mem {ks : List κ} {vs : List ν} (hn : ks.Nodup) (hl : ks.length = vs.length)
    {k : κ} (hk : k ∈ ks) :
    (ofPairs (zip ks vs)).get? k = some (vs[ks.idxOf k]'(hl ▸ List.idxOf_lt_length_of_mem hk)) := by
  rw [get?_ofPairs_zip hn hl, List.getElem?_eq_getElem]

/-! ### `erase` -/

theorem keys_erase (d : Dict κ ν) (k : κ) : (d.erase k).keys = d.keys.filter (fun a => a ≠ k) := by
  simp [erase, keys, List.filter_map]; rfl

theorem WF_erase {d : Dict κ ν} (hd : d.WF) (k : κ) : (d.erase k).WF := by
  unfold WF; rw [keys_erase]; exact hd.filter _

theorem get?_erase (d : Dict κ ν) (k k' : κ) : (d.erase k).get? k' = if k' = k then none else d.get? k' :=
  lookup_filter_ne d.items k k'

end Dict

/-! ## Graph: basic view lemmas -/

namespace Graph

theorem hasNode_iff (g : Graph) (n : Int) : g.hasNode n = true ↔ n ∈ g.nodeList := Dict.contains_iff _ _

theorem mem_nodeList_iff (g : Graph) (n : Int) : n ∈ g.nodeList ↔ (g.node.get? n).isSome = true :=
  (Dict.get?_isSome_iff _ _).symm

theorem mem_nodeList_of_get? {g : Graph} {n : Int} {a : Attrs} (h : g.node.get? n = some a) : n ∈ g.nodeList :=
  Dict.mem_keys_of_get? h

/-- adjacency is the support of `edgeAttrs` -/
theorem mem_nbrs_iff (g : Graph) (u v : Int) : v ∈ g.nbrs u ↔ (g.edgeAttrs u v).isSome = true := by
  unfold nbrs edgeAttrs
  cases h : g.adj.get? u with
  | none => simp
  | some d => simpa using (Dict.get?_isSome_iff d v).symm

theorem edgeAttrs_eq_none_of_adj {g : Graph} {u : Int} (h : g.adj.get? u = none) (v : Int) :
    g.edgeAttrs u v = none := by simp [edgeAttrs, h]

theorem attr_eq (g : Graph) (n : Int) (k : String) : g.attr n k = (g.node.get? n).bind (·.get? k) := rfl

theorem numberOfNodes_eq (g : Graph) : g.numberOfNodes = (g.nodeList.length : Int) := by
  simp [numberOfNodes, nodeList, Dict.keys]

namespace WF
variable {g : Graph}

theorem nodup_nodeList (hg : g.WF) : g.nodeList.Nodup := hg.node_wf

theorem mem_adj_keys_iff (hg : g.WF) (n : Int) : n ∈ g.adj.keys ↔ n ∈ g.nodeList := by
  rw [hg.adj_keys]; rfl

theorem adj_get?_isSome (hg : g.WF) {n : Int} (hn : n ∈ g.nodeList) : ∃ d, g.adj.get? n = some d :=
  Dict.exists_get?_of_mem_keys ((hg.mem_adj_keys_iff n).2 hn)

theorem adj_get?_eq_none (hg : g.WF) {n : Int} (hn : n ∉ g.nodeList) : g.adj.get? n = none :=
  (Dict.get?_eq_none_iff _ _).2 (fun h => hn ((hg.mem_adj_keys_iff n).1 h))

theorem nodup_nbrs (hg : g.WF) (u : Int) : (g.nbrs u).Nodup := by
  unfold nbrs
  cases h : g.adj.get? u with
  | none => simp
  | some d => exact hg.nbr_wf u d h

theorem left_mem_of_edgeAttrs (hg : g.WF) {u v : Int} {a : Attrs} (h : g.edgeAttrs u v = some a) :
    u ∈ g.nodeList := by
  by_contra hn
  rw [edgeAttrs_eq_none_of_adj (hg.adj_get?_eq_none hn)] at h; cases h

theorem right_mem_of_edgeAttrs (hg : g.WF) {u v : Int} {a : Attrs} (h : g.edgeAttrs u v = some a) :
    v ∈ g.nodeList := hg.nbr_mem u v ((mem_nbrs_iff g u v).2 (by simp [h]))

theorem edgeAttrs_symm (hg : g.WF) (u v : Int) : g.edgeAttrs u v = g.edgeAttrs v u := by
  cases h : g.edgeAttrs u v with
  | some a => exact (hg.symm u v a h).symm
  | none =>
    cases h' : g.edgeAttrs v u with
    | none => rfl
    | some b => rw [hg.symm v u b h'] at h; cases h

theorem mem_nbrs_symm (hg : g.WF) {u v : Int} (h : v ∈ g.nbrs u) : u ∈ g.nbrs v := by
  rw [mem_nbrs_iff] at *; rwa [hg.edgeAttrs_symm]

/-- a graph with the same bonds, a larger node set and well-formed dicts is well-formed -/
theorem of_edgeAttrs_eq {g' : Graph} (hg : g.WF) (hn : g'.node.WF) (ha : g'.adj.WF)
    (hk : g'.adj.keys = g'.node.keys) (hattrs : ∀ n a, g'.node.get? n = some a → a.WF)
    (hnbr : ∀ u d, g'.adj.get? u = some d → d.WF) (he : ∀ x y, g'.edgeAttrs x y = g.edgeAttrs x y)
    (hsub : ∀ n ∈ g.nodeList, n ∈ g'.nodeList) : g'.WF where
  node_wf := hn
  adj_wf := ha
  adj_keys := hk
  attrs_wf := hattrs
  nbr_wf := hnbr
  nbr_mem := fun u v h => hsub v (hg.nbr_mem u v (by rw [mem_nbrs_iff] at *; rwa [← he]))
  symm := fun u v a h => by rw [he] at *; exact hg.symm u v a h
  eattrs_wf := fun u v a h => by rw [he] at h; exact hg.eattrs_wf u v a h

end WF

theorem WF_empty : Graph.empty.WF where
  node_wf := Dict.WF_empty
  adj_wf := Dict.WF_empty
  adj_keys := rfl
  attrs_wf := fun n a h => by simp [Graph.empty] at h
  nbr_wf := fun u d h => by simp [Graph.empty] at h
  nbr_mem := fun u v h => by simp [nbrs, Graph.empty] at h
  symm := fun u v a h => by simp [edgeAttrs, Graph.empty] at h
  eattrs_wf := fun u v a h => by simp [edgeAttrs, Graph.empty] at h

@[simp] theorem nodeList_empty : Graph.empty.nodeList = [] := rfl
@[simp] theorem edgeAttrs_empty (u v : Int) : Graph.empty.edgeAttrs u v = none := rfl

/-! ### `addNode` -/

theorem addNode_of_some {g : Graph} {n : Int} {old : Attrs} (h : g.node.get? n = some old) (a : Attrs) :
    g.addNode n a = { g with node := g.node.set n (old.update a) } := by
  unfold addNode; rw [h]

theorem addNode_of_none {g : Graph} {n : Int} (h : g.node.get? n = none) (a : Attrs) :
    g.addNode n a = { node := g.node.set n a, adj := g.adj.set n Dict.empty } := by
  unfold addNode; rw [h]

theorem addNode_of_not_mem {g : Graph} {n : Int} (h : n ∉ g.nodeList) (a : Attrs) :
    g.addNode n a = { node := g.node.set n a, adj := g.adj.set n Dict.empty } :=
  addNode_of_none ((Dict.get?_eq_none_iff _ _).2 h) a

theorem nodeList_addNode (g : Graph) (n : Int) (a : Attrs) :
    (g.addNode n a).nodeList = if n ∈ g.nodeList then g.nodeList else g.nodeList ++ [n] := by
  cases h : g.node.get? n with
  | some old =>
    have hm := mem_nodeList_of_get? h
    rw [addNode_of_some h, if_pos hm]; exact Dict.keys_set_of_mem _ _ hm
  | none =>
    have hm : n ∉ g.nodeList := (Dict.get?_eq_none_iff _ _).1 h
    rw [addNode_of_none h, if_neg hm]; exact Dict.keys_set_of_not_mem _ _ hm

theorem mem_nodeList_addNode (g : Graph) (n x : Int) (a : Attrs) :
    x ∈ (g.addNode n a).nodeList ↔ x = n ∨ x ∈ g.nodeList := by
  rw [nodeList_addNode]; by_cases h : n ∈ g.nodeList
  · rw [if_pos h]; constructor
    · exact Or.inr
    · rintro (rfl | h') <;> assumption
  · rw [if_neg h]; simp [or_comm]

/-- node attribute dicts after `add_node`: a new node gets exactly `a`, an old one is updated -/
theorem node_get?_addNode (g : Graph) (n x : Int) (a : Attrs) :
    (g.addNode n a).node.get? x =
      if x = n then some (match g.node.get? n with | some old => old.update a | none => a)
      else g.node.get? x := by
  cases h : g.node.get? n with
  | some old => rw [addNode_of_some h]; exact Dict.get?_set _ _ _ _
  | none => rw [addNode_of_none h]; exact Dict.get?_set _ _ _ _

theorem node_get?_addNode_ne (g : Graph) {n x : Int} (a : Attrs) (h : x ≠ n) :
    (g.addNode n a).node.get? x = g.node.get? x := by simp [node_get?_addNode, h]

theorem node_addNode_of_not_mem {g : Graph} {n : Int} (h : n ∉ g.nodeList) (a : Attrs) :
    (g.addNode n a).node.items = g.node.items ++ [(n, a)] := by
  rw [addNode_of_not_mem h]; exact Dict.items_set_of_not_mem _ _ h

theorem adj_addNode_of_not_mem {g : Graph} (hg : g.WF) {n : Int} (h : n ∉ g.nodeList) (a : Attrs) :
    (g.addNode n a).adj.items = g.adj.items ++ [(n, Dict.empty)] := by
  rw [addNode_of_not_mem h]
  exact Dict.items_set_of_not_mem _ _ (fun h' => h ((hg.mem_adj_keys_iff n).1 h'))

theorem adj_addNode_of_mem {g : Graph} {n : Int} (h : n ∈ g.nodeList) (a : Attrs) :
    (g.addNode n a).adj = g.adj := by
  obtain ⟨old, ho⟩ := Dict.exists_get?_of_mem_keys h
  rw [addNode_of_some ho]

/-- `add_node` does not touch the bonds -/
theorem edgeAttrs_addNode {g : Graph} (hg : g.WF) (n : Int) (a : Attrs) (x y : Int) :
    (g.addNode n a).edgeAttrs x y = g.edgeAttrs x y := by
  cases h : g.node.get? n with
  | some old => rw [addNode_of_some h]; rfl
  | none =>
    have hm : n ∉ g.nodeList := (Dict.get?_eq_none_iff _ _).1 h
    rw [addNode_of_none h]
    unfold edgeAttrs
    simp only [Dict.get?_set]
    by_cases hx : x = n
    · subst hx; simp [hg.adj_get?_eq_none hm]
    · simp [hx]

theorem nbrs_addNode {g : Graph} (hg : g.WF) (n : Int) (a : Attrs) (x : Int) :
    (g.addNode n a).nbrs x = g.nbrs x := by
  cases h : g.node.get? n with
  | some old => rw [addNode_of_some h]; rfl
  | none =>
    have hm : n ∉ g.nodeList := (Dict.get?_eq_none_iff _ _).1 h
    rw [addNode_of_none h]
    unfold nbrs
    simp only [Dict.get?_set]
    by_cases hx : x = n
    · subst hx; simp [hg.adj_get?_eq_none hm]
    · simp [hx]

theorem WF_addNode {g : Graph} (hg : g.WF) (n : Int) {a : Attrs} (ha : a.WF) : (g.addNode n a).WF := by
  refine hg.of_edgeAttrs_eq ?_ ?_ ?_ ?_ ?_ (edgeAttrs_addNode hg n a)
    (fun x hx => (mem_nodeList_addNode g n x a).2 (Or.inr hx))
  · cases h : g.node.get? n with
    | some old => rw [addNode_of_some h]; exact Dict.WF_set hg.node_wf _ _
    | none => rw [addNode_of_none h]; exact Dict.WF_set hg.node_wf _ _
  · cases h : g.node.get? n with
    | some old => rw [addNode_of_some h]; exact hg.adj_wf
    | none => rw [addNode_of_none h]; exact Dict.WF_set hg.adj_wf _ _
  · cases h : g.node.get? n with
    | some old =>
      rw [addNode_of_some h]
      show g.adj.keys = (g.node.set n _).keys
      rw [Dict.keys_set_of_mem _ _ (Dict.mem_keys_of_get? h)]; exact hg.adj_keys
    | none =>
      have hm : n ∉ g.node.keys := (Dict.get?_eq_none_iff _ _).1 h
      rw [addNode_of_none h]
      show (g.adj.set n _).keys = (g.node.set n _).keys
      rw [Dict.keys_set_of_not_mem _ _ hm, Dict.keys_set_of_not_mem _ _ (hg.adj_keys ▸ hm), hg.adj_keys]
  · intro x b hb
    rw [node_get?_addNode] at hb
    by_cases hx : x = n
    · rw [if_pos hx] at hb
      cases h : g.node.get? n with
      | some old =>
        rw [h] at hb; simp only [Option.some.injEq] at hb
        rw [← hb]; exact Dict.WF_update (hg.attrs_wf n old h) _
      | none => rw [h] at hb; simp only [Option.some.injEq] at hb; rw [← hb]; exact ha
    · rw [if_neg hx] at hb; exact hg.attrs_wf x b hb
  · intro u d hd
    cases h : g.node.get? n with
    | some old => rw [addNode_of_some h] at hd; exact hg.nbr_wf u d hd
    | none =>
      rw [addNode_of_none h] at hd
      simp only [Dict.get?_set] at hd
      by_cases hu : u = n
      · rw [if_pos hu] at hd; simp only [Option.some.injEq] at hd; rw [← hd]; exact Dict.WF_empty
      · rw [if_neg hu] at hd; exact hg.nbr_wf u d hd

end Graph

/-! ### `addEdge` -/

namespace Graph

/-- `WF` without symmetry: what a *directed* adjacency update preserves -/
structure DirWF (g : Graph) : Prop where
  node_wf : g.node.WF
  adj_wf : g.adj.WF
  adj_keys : g.adj.keys = g.node.keys
  attrs_wf : ∀ n a, g.node.get? n = some a → a.WF
  nbr_wf : ∀ u d, g.adj.get? u = some d → d.WF
  nbr_mem : ∀ u v, v ∈ g.nbrs u → v ∈ g.nodeList
  eattrs_wf : ∀ u v a, g.edgeAttrs u v = some a → a.WF

theorem WF.dirWF {g : Graph} (hg : g.WF) : g.DirWF :=
  ⟨hg.node_wf, hg.adj_wf, hg.adj_keys, hg.attrs_wf, hg.nbr_wf, hg.nbr_mem, hg.eattrs_wf⟩

theorem DirWF.toWF {g : Graph} (hg : g.DirWF) (hs : ∀ u v a, g.edgeAttrs u v = some a → g.edgeAttrs v u = some a) :
    g.WF := ⟨hg.node_wf, hg.adj_wf, hg.adj_keys, hg.attrs_wf, hg.nbr_wf, hg.nbr_mem, hs, hg.eattrs_wf⟩

/-- one direction of `add_edge`: `adj[u][v] = d` -/
def setAdj (g : Graph) (u v : Int) (d : Attrs) : Graph :=
  { g with adj := g.adj.set u (((g.adj.get? u).getD Dict.empty).set v d) }

@[simp] theorem node_setAdj (g : Graph) (u v : Int) (d : Attrs) : (g.setAdj u v d).node = g.node := rfl
@[simp] theorem nodeList_setAdj (g : Graph) (u v : Int) (d : Attrs) : (g.setAdj u v d).nodeList = g.nodeList := rfl

theorem adj_get?_setAdj (g : Graph) (u v : Int) (d : Attrs) (x : Int) :
    (g.setAdj u v d).adj.get? x =
      if x = u then some (((g.adj.get? u).getD Dict.empty).set v d) else g.adj.get? x :=
  Dict.get?_set _ _ _ _

theorem edgeAttrs_setAdj (g : Graph) (u v : Int) (d : Attrs) (x y : Int) :
    (g.setAdj u v d).edgeAttrs x y = if x = u ∧ y = v then some d else g.edgeAttrs x y := by
  unfold edgeAttrs
  rw [adj_get?_setAdj]
  by_cases hx : x = u
  · subst hx
    rw [if_pos rfl]
    by_cases hy : y = v
    · subst hy; simp
    · cases g.adj.get? x <;> simp [Dict.get?_set, hy]
  · simp [hx]

theorem DirWF.setAdj {g : Graph} (hg : g.DirWF) {u v : Int} (hu : u ∈ g.nodeList) (hv : v ∈ g.nodeList)
    {d : Attrs} (hd : d.WF) : (g.setAdj u v d).DirWF where
  node_wf := hg.node_wf
  adj_wf := Dict.WF_set hg.adj_wf _ _
  adj_keys := by
    show (g.adj.set u _).keys = g.node.keys
    rw [Dict.keys_set_of_mem _ _ (by rw [hg.adj_keys]; exact hu)]; exact hg.adj_keys
  attrs_wf := hg.attrs_wf
  nbr_wf := by
    intro x e he
    rw [adj_get?_setAdj] at he
    by_cases hx : x = u
    · rw [if_pos hx] at he; simp only [Option.some.injEq] at he; rw [← he]
      apply Dict.WF_set
      cases h : g.adj.get? u with
      | none => exact Dict.WF_empty
      | some au => exact hg.nbr_wf u au h
    · rw [if_neg hx] at he; exact hg.nbr_wf x e he
  nbr_mem := by
    intro x y h
    rw [mem_nbrs_iff, edgeAttrs_setAdj] at h
    by_cases hxy : x = u ∧ y = v
    · rw [hxy.2]; exact hv
    · rw [if_neg hxy] at h; exact hg.nbr_mem x y ((mem_nbrs_iff g x y).2 h)
  eattrs_wf := by
    intro x y a h
    rw [edgeAttrs_setAdj] at h
    by_cases hxy : x = u ∧ y = v
    · rw [if_pos hxy] at h; simp only [Option.some.injEq] at h; rw [← h]; exact hd
    · rw [if_neg hxy] at h; exact hg.eattrs_wf x y a h

/-- `add_edge` adds missing endpoints first -/
def ensureNode (g : Graph) (n : Int) : Graph := if g.hasNode n then g else g.addNode n Dict.empty

theorem ensureNode_of_mem {g : Graph} {n : Int} (h : n ∈ g.nodeList) : g.ensureNode n = g := by
  unfold ensureNode; rw [if_pos ((hasNode_iff g n).2 h)]

theorem ensureNode_of_not_mem {g : Graph} {n : Int} (h : n ∉ g.nodeList) :
    g.ensureNode n = g.addNode n Dict.empty := by
  unfold ensureNode; rw [if_neg (fun h' => h ((hasNode_iff g n).1 h'))]

theorem WF_ensureNode {g : Graph} (hg : g.WF) (n : Int) : (g.ensureNode n).WF := by
  unfold ensureNode; split
  · exact hg
  · exact WF_addNode hg n Dict.WF_empty

theorem nodeList_ensureNode (g : Graph) (n : Int) :
    (g.ensureNode n).nodeList = if n ∈ g.nodeList then g.nodeList else g.nodeList ++ [n] := by
  by_cases h : n ∈ g.nodeList
  · rw [ensureNode_of_mem h, if_pos h]
  · rw [ensureNode_of_not_mem h, nodeList_addNode]

theorem mem_nodeList_ensureNode (g : Graph) (n x : Int) :
    x ∈ (g.ensureNode n).nodeList ↔ x = n ∨ x ∈ g.nodeList := by
  by_cases h : n ∈ g.nodeList
  · rw [ensureNode_of_mem h]; constructor
    · exact Or.inr
    · rintro (rfl | h') <;> assumption
  · rw [ensureNode_of_not_mem h, mem_nodeList_addNode]

theorem edgeAttrs_ensureNode {g : Graph} (hg : g.WF) (n x y : Int) :
    (g.ensureNode n).edgeAttrs x y = g.edgeAttrs x y := by
  unfold ensureNode; split
  · rfl
  · exact edgeAttrs_addNode hg n _ x y

theorem node_get?_ensureNode (g : Graph) (n x : Int) :
    (g.ensureNode n).node.get? x = if x ∈ g.nodeList then g.node.get? x else if x = n then some Dict.empty else none := by
  by_cases h : n ∈ g.nodeList
  · rw [ensureNode_of_mem h]
    by_cases hx : x ∈ g.nodeList
    · rw [if_pos hx]
    · rw [if_neg hx, (Dict.get?_eq_none_iff _ _).2 hx]
      have : x ≠ n := fun e => hx (e ▸ h)
      rw [if_neg this]
  · rw [ensureNode_of_not_mem h, node_get?_addNode]
    have hn : g.node.get? n = none := (Dict.get?_eq_none_iff _ _).2 h
    by_cases hx : x = n
    · subst hx; rw [if_pos rfl, if_neg h, if_pos rfl, hn]
    · rw [if_neg hx, if_neg hx]
      by_cases hx' : x ∈ g.nodeList
      · rw [if_pos hx']
      · rw [if_neg hx', (Dict.get?_eq_none_iff _ _).2 hx']

/-- the data stored on the bond by `add_edge(u, v, **a)` -/
def newEdgeData (g : Graph) (u v : Int) (a : Attrs) : Attrs :=
  ((g.edgeAttrs u v).getD Dict.empty).update a

theorem addEdge_eq (g : Graph) (u v : Int) (a : Attrs) :
    g.addEdge u v a =
      let g₂ := (g.ensureNode u).ensureNode v
      let d := g₂.newEdgeData u v a
      (g₂.setAdj u v d).setAdj v u d := rfl

theorem WF_addEdge {g : Graph} (hg : g.WF) (u v : Int) (a : Attrs) : (g.addEdge u v a).WF := by
  rw [addEdge_eq]
  have h₂ : ((g.ensureNode u).ensureNode v).WF := WF_ensureNode (WF_ensureNode hg u) v
  generalize hg₂ : (g.ensureNode u).ensureNode v = g₂ at h₂
  have hu : u ∈ g₂.nodeList := by
    rw [← hg₂, mem_nodeList_ensureNode, mem_nodeList_ensureNode]; simp
  have hv : v ∈ g₂.nodeList := by
    rw [← hg₂, mem_nodeList_ensureNode]; simp
  have hd : (g₂.newEdgeData u v a).WF := by
    unfold newEdgeData
    apply Dict.WF_update
    cases h : g₂.edgeAttrs u v with
    | none => exact Dict.WF_empty
    | some b => exact h₂.eattrs_wf u v b h
  simp only
  generalize g₂.newEdgeData u v a = d at hd
  refine ((h₂.dirWF.setAdj hu hv hd).setAdj (g := g₂.setAdj u v d) hv hu hd).toWF ?_
  intro x y b hb
  simp only [edgeAttrs_setAdj] at hb ⊢
  by_cases h1 : x = v ∧ y = u
  · rw [if_pos h1] at hb
    by_cases h2 : y = v ∧ x = u
    · rw [if_pos h2]; exact hb
    · rw [if_neg h2, if_pos ⟨h1.2, h1.1⟩]; exact hb
  · rw [if_neg h1] at hb
    by_cases h2 : x = u ∧ y = v
    · rw [if_pos h2] at hb; rw [if_pos ⟨h2.2, h2.1⟩]; exact hb
    · rw [if_neg h2] at hb
      have h3 : ¬ (y = v ∧ x = u) := fun h => h2 ⟨h.2, h.1⟩
      have h4 : ¬ (y = u ∧ x = v) := fun h => h1 ⟨h.2, h.1⟩
      rw [if_neg h3, if_neg h4]; exact h₂.symm x y b hb

theorem nodeList_addEdge (g : Graph) (u v : Int) (a : Attrs) :
    (g.addEdge u v a).nodeList = ((g.ensureNode u).ensureNode v).nodeList := rfl

theorem mem_nodeList_addEdge (g : Graph) (u v x : Int) (a : Attrs) :
    x ∈ (g.addEdge u v a).nodeList ↔ x = u ∨ x = v ∨ x ∈ g.nodeList := by
  rw [nodeList_addEdge, mem_nodeList_ensureNode, mem_nodeList_ensureNode]; tauto

theorem node_addEdge (g : Graph) (u v : Int) (a : Attrs) :
    (g.addEdge u v a).node = ((g.ensureNode u).ensureNode v).node := rfl

/-- `add_edge` between existing nodes leaves the node dict (order and attributes) untouched -/
theorem node_addEdge_of_mem {g : Graph} {u v : Int} (hu : u ∈ g.nodeList) (hv : v ∈ g.nodeList) (a : Attrs) :
    (g.addEdge u v a).node = g.node := by
  rw [node_addEdge, ensureNode_of_mem hu, ensureNode_of_mem hv]

theorem nodeList_addEdge_of_mem {g : Graph} {u v : Int} (hu : u ∈ g.nodeList) (hv : v ∈ g.nodeList) (a : Attrs) :
    (g.addEdge u v a).nodeList = g.nodeList := by
  unfold nodeList; rw [node_addEdge_of_mem hu hv]

/-- bonds after `add_edge(u, v, **a)` (also for `u = v`) -/
theorem edgeAttrs_addEdge {g : Graph} (hg : g.WF) (u v : Int) (a : Attrs) (x y : Int) :
    (g.addEdge u v a).edgeAttrs x y =
      if (x = u ∧ y = v) ∨ (x = v ∧ y = u) then some (g.newEdgeData u v a) else g.edgeAttrs x y := by
  rw [addEdge_eq]
  have e₂ : ∀ x y, ((g.ensureNode u).ensureNode v).edgeAttrs x y = g.edgeAttrs x y := fun x y => by
    rw [edgeAttrs_ensureNode (WF_ensureNode hg u), edgeAttrs_ensureNode hg]
  have ed : ((g.ensureNode u).ensureNode v).newEdgeData u v a = g.newEdgeData u v a := by
    unfold newEdgeData; rw [e₂]
  simp only [edgeAttrs_setAdj, ed, e₂]
  by_cases h1 : x = v ∧ y = u
  · simp [h1]
  · by_cases h2 : x = u ∧ y = v
    · simp [h2]
    · simp [h1, h2]

theorem mem_nbrs_addEdge {g : Graph} (hg : g.WF) (u v : Int) (a : Attrs) (x y : Int) :
    y ∈ (g.addEdge u v a).nbrs x ↔ y ∈ g.nbrs x ∨ (x = u ∧ y = v) ∨ (x = v ∧ y = u) := by
  rw [mem_nbrs_iff, mem_nbrs_iff, edgeAttrs_addEdge hg]
  by_cases h : (x = u ∧ y = v) ∨ (x = v ∧ y = u)
  · simp [h]
  · simp [h]

end Graph

/-! ### folds of `addNode` -/

namespace Graph

theorem addNodesFromData_nil (g : Graph) : g.addNodesFromData [] = g := rfl
theorem addNodesFromData_cons (g : Graph) (p : Int × Attrs) (ns : List (Int × Attrs)) :
    g.addNodesFromData (p :: ns) = (g.addNode p.1 p.2).addNodesFromData ns := rfl
theorem addNodesFrom_eq (g : Graph) (ns : List Int) :
    g.addNodesFrom ns = g.addNodesFromData (ns.map (fun n => (n, Dict.empty))) := by
  simp [addNodesFrom, addNodesFromData, List.foldl_map]

theorem WF_addNodesFromData {g : Graph} (hg : g.WF) (ns : List (Int × Attrs)) (ha : ∀ p ∈ ns, p.2.WF) :
    (g.addNodesFromData ns).WF := by
  induction ns generalizing g with
  | nil => exact hg
  | cons p ns ih =>
    rw [addNodesFromData_cons]
    exact ih (WF_addNode hg p.1 (ha p (by simp))) (fun q hq => ha q (by simp [hq]))

theorem edgeAttrs_addNodesFromData {g : Graph} (hg : g.WF) (ns : List (Int × Attrs)) (ha : ∀ p ∈ ns, p.2.WF)
    (x y : Int) : (g.addNodesFromData ns).edgeAttrs x y = g.edgeAttrs x y := by
  induction ns generalizing g with
  | nil => rfl
  | cons p ns ih =>
    rw [addNodesFromData_cons, ih (WF_addNode hg p.1 (ha p (by simp))) (fun q hq => ha q (by simp [hq])),
      edgeAttrs_addNode hg]

theorem mem_nodeList_addNodesFromData (g : Graph) (ns : List (Int × Attrs)) (x : Int) :
    x ∈ (g.addNodesFromData ns).nodeList ↔ x ∈ g.nodeList ∨ x ∈ ns.map Prod.fst := by
  induction ns generalizing g with
  | nil => simp [addNodesFromData_nil]
  | cons p ns ih =>
    rw [addNodesFromData_cons, ih, mem_nodeList_addNode]; simp only [List.map_cons, List.mem_cons]; tauto

/-- adding fresh, pairwise distinct nodes appends them (with exactly the given attribute dicts) -/
theorem addNodesFromData_fresh {g : Graph} (hg : g.WF) (ns : List (Int × Attrs)) (ha : ∀ p ∈ ns, p.2.WF)
    (hn : (g.nodeList ++ ns.map Prod.fst).Nodup) :
    (g.addNodesFromData ns).node.items = g.node.items ++ ns ∧
    (g.addNodesFromData ns).adj.items = g.adj.items ++ ns.map (fun p => (p.1, Dict.empty)) := by
  induction ns generalizing g with
  | nil => simp [addNodesFromData_nil]
  | cons p ns ih =>
    have hp : p.1 ∉ g.nodeList := by
      intro hm; exact (List.nodup_append.1 hn).2.2 _ hm _ (by simp) rfl
    have hg' : (g.addNode p.1 p.2).WF := WF_addNode hg p.1 (ha p (by simp))
    have hn' : ((g.addNode p.1 p.2).nodeList ++ ns.map Prod.fst).Nodup := by
      rw [nodeList_addNode, if_neg hp]; simpa using hn
    obtain ⟨h1, h2⟩ := ih hg' (fun q hq => ha q (by simp [hq])) hn'
    rw [addNodesFromData_cons, h1, h2, node_addNode_of_not_mem hp, adj_addNode_of_not_mem hg hp]
    simp

theorem addNodesFromData_empty (ns : List (Int × Attrs)) (ha : ∀ p ∈ ns, p.2.WF) (hn : (ns.map Prod.fst).Nodup) :
    Graph.empty.addNodesFromData ns = ⟨⟨ns⟩, ⟨ns.map (fun p => (p.1, Dict.empty))⟩⟩ := by
  obtain ⟨h1, h2⟩ := addNodesFromData_fresh WF_empty ns ha (by simpa using hn)
  generalize Graph.empty.addNodesFromData ns = h at h1 h2
  obtain ⟨⟨n⟩, ⟨a⟩⟩ := h
  simp only [Graph.empty, Dict.empty, List.nil_append] at h1 h2
  subst h1 h2; rfl

theorem edgeAttrs_mk_empty (ns : Dict Int Attrs) (l : List Int) (x y : Int) :
    (Graph.mk ns ⟨l.map (fun n => (n, Dict.empty))⟩).edgeAttrs x y = none := by
  unfold edgeAttrs
  cases h : (Dict.mk (l.map (fun n => (n, (Dict.empty : Dict Int Attrs))))).get? x with
  | none => rfl
  | some d =>
    have := Dict.mem_items_of_get? h
    simp only [List.mem_map, Prod.mk.injEq] at this
    obtain ⟨_, _, _, rfl⟩ := this
    rfl

/-! ### folds of `addEdge` -/

theorem addEdgesFromData_nil (g : Graph) : g.addEdgesFromData [] = g := rfl
theorem addEdgesFromData_cons (g : Graph) (e : Int × Int × Attrs) (es : List (Int × Int × Attrs)) :
    g.addEdgesFromData (e :: es) = (g.addEdge e.1 e.2.1 e.2.2).addEdgesFromData es := rfl
theorem addEdgesFrom_eq (g : Graph) (es : List (Int × Int)) :
    g.addEdgesFrom es = g.addEdgesFromData (es.map (fun e => (e.1, e.2, Dict.empty))) := by
  simp [addEdgesFrom, addEdgesFromData, List.foldl_map]

theorem WF_addEdgesFromData {g : Graph} (hg : g.WF) (es : List (Int × Int × Attrs)) :
    (g.addEdgesFromData es).WF := by
  induction es generalizing g with
  | nil => exact hg
  | cons e es ih => rw [addEdgesFromData_cons]; exact ih (WF_addEdge hg _ _ _)

theorem mem_nodeList_addEdgesFromData (g : Graph) (es : List (Int × Int × Attrs)) (x : Int) :
    x ∈ (g.addEdgesFromData es).nodeList ↔ x ∈ g.nodeList ∨ ∃ e ∈ es, x = e.1 ∨ x = e.2.1 := by
  induction es generalizing g with
  | nil => simp [addEdgesFromData_nil]
  | cons e es ih =>
    rw [addEdgesFromData_cons, ih, mem_nodeList_addEdge]
    simp only [List.mem_cons, exists_eq_or_imp]
    have : ∀ (A B C P : Prop), ((A ∨ B ∨ C) ∨ P) ↔ (C ∨ (A ∨ B) ∨ P) := by intros; tauto
    exact this _ _ _ _

/-- adding bonds between existing nodes leaves the node dict (order and attributes) untouched -/
theorem node_addEdgesFromData_of_mem {g : Graph} (es : List (Int × Int × Attrs))
    (h : ∀ e ∈ es, e.1 ∈ g.nodeList ∧ e.2.1 ∈ g.nodeList) : (g.addEdgesFromData es).node = g.node := by
  induction es generalizing g with
  | nil => rfl
  | cons e es ih =>
    have he := h e (by simp)
    rw [addEdgesFromData_cons, ih, node_addEdge_of_mem he.1 he.2]
    intro e' he'
    rw [nodeList_addEdge_of_mem he.1 he.2]; exact h e' (by simp [he'])

/-- the entry `e = (u, v, a)` is a bond between `x` and `y` -/
def EMatch (e : Int × Int × Attrs) (x y : Int) : Prop := (x = e.1 ∧ y = e.2.1) ∨ (x = e.2.1 ∧ y = e.1)
instance (e : Int × Int × Attrs) (x y : Int) : Decidable (EMatch e x y) := by unfold EMatch; infer_instance

/-- data of the bond `{x, y}` after `add_edges_from(es)`: every matching entry updates the dict -/
def edgeAccum (es : List (Int × Int × Attrs)) (x y : Int) (o : Option Attrs) : Option Attrs :=
  es.foldl (fun o e => if EMatch e x y then some ((o.getD Dict.empty).update e.2.2) else o) o

theorem edgeAttrs_addEdgesFromData {g : Graph} (hg : g.WF) (es : List (Int × Int × Attrs)) (x y : Int) :
    (g.addEdgesFromData es).edgeAttrs x y = edgeAccum es x y (g.edgeAttrs x y) := by
  induction es generalizing g with
  | nil => rfl
  | cons e es ih =>
    rw [addEdgesFromData_cons, ih (WF_addEdge hg _ _ _), edgeAttrs_addEdge hg]
    unfold edgeAccum
    rw [List.foldl_cons]
    congr 1
    by_cases hm : EMatch e x y
    · rw [if_pos hm, if_pos (show (x = e.1 ∧ y = e.2.1) ∨ (x = e.2.1 ∧ y = e.1) from hm)]
      unfold newEdgeData
      rcases hm with ⟨h1, h2⟩ | ⟨h1, h2⟩
      · rw [h1, h2]
      · rw [h1, h2, hg.edgeAttrs_symm]
    · rw [if_neg hm, if_neg (show ¬ ((x = e.1 ∧ y = e.2.1) ∨ (x = e.2.1 ∧ y = e.1)) from hm)]

theorem edgeAccum_of_no_match (es : List (Int × Int × Attrs)) (x y : Int) (o : Option Attrs)
    (h : ∀ e ∈ es, ¬ EMatch e x y) : edgeAccum es x y o = o := by
  induction es generalizing o with
  | nil => rfl
  | cons e es ih =>
    unfold edgeAccum at *
    rw [List.foldl_cons, if_neg (h e (by simp))]
    exact ih o (fun e' he' => h e' (by simp [he']))

theorem edgeAccum_some_same (es : List (Int × Int × Attrs)) (x y : Int) {a : Attrs} (ha : a.WF)
    (h : ∀ e ∈ es, EMatch e x y → e.2.2 = a) : edgeAccum es x y (some a) = some a := by
  induction es with
  | nil => rfl
  | cons e es ih =>
    unfold edgeAccum at *
    rw [List.foldl_cons]
    by_cases hm : EMatch e x y
    · rw [if_pos hm, h e (by simp) hm, Option.getD_some, Dict.update_self ha]
      exact ih (fun e' he' => h e' (by simp [he']))
    · rw [if_neg hm]; exact ih (fun e' he' => h e' (by simp [he']))

/-- if every entry for `{x, y}` carries the same well-formed data `a` and there is at least one,
the bond ends up with exactly `a` -/
theorem edgeAccum_none_same (es : List (Int × Int × Attrs)) (x y : Int) {a : Attrs} (ha : a.WF)
    (h : ∀ e ∈ es, EMatch e x y → e.2.2 = a) (hex : ∃ e ∈ es, EMatch e x y) :
    edgeAccum es x y none = some a := by
  induction es with
  | nil => simp at hex
  | cons e es ih =>
    by_cases hm : EMatch e x y
    · have : edgeAccum (e :: es) x y none = edgeAccum es x y (some a) := by
        unfold edgeAccum
        rw [List.foldl_cons, if_pos hm, h e (by simp) hm, Option.getD_none, Dict.empty_update ha]
      rw [this]; exact edgeAccum_some_same es x y ha (fun e' he' => h e' (by simp [he']))
    · have : edgeAccum (e :: es) x y none = edgeAccum es x y none := by
        unfold edgeAccum
        rw [List.foldl_cons, if_neg hm]
      rw [this]
      refine ih (fun e' he' => h e' (by simp [he'])) ?_
      obtain ⟨e', he', hm'⟩ := hex
      rcases List.mem_cons.1 he' with rfl | he''
      · exact absurd hm' hm
      · exact ⟨e', he'', hm'⟩

/-- **Rebuilding a graph from a bond list.** `L` lists every bond of `g` in at least one direction
(e.g. `edgesData g`, or the full adjacency), `h₀` has the renamed nodes and no bonds: adding the renamed
bonds yields a well-formed graph with the node dict of `h₀` and exactly the bonds of `g`, renamed. -/
theorem addEdgesFromData_rebuild {g h₀ : Graph} (hg : g.WF) (hh : h₀.WF) (π : Int → Int)
    (inj : ∀ a ∈ g.nodeList, ∀ b ∈ g.nodeList, π a = π b → a = b)
    (hnodes : ∀ n ∈ g.nodeList, π n ∈ h₀.nodeList)
    (hempty : ∀ x y, h₀.edgeAttrs x y = none)
    (L : List (Int × Int × Attrs))
    (L1 : ∀ e ∈ L, g.edgeAttrs e.1 e.2.1 = some e.2.2)
    (L2 : ∀ u v a, g.edgeAttrs u v = some a → (u, v, a) ∈ L ∨ (v, u, a) ∈ L) :
    (h₀.addEdgesFromData (L.map (fun e => (π e.1, π e.2.1, e.2.2)))).WF ∧
    (h₀.addEdgesFromData (L.map (fun e => (π e.1, π e.2.1, e.2.2)))).node = h₀.node ∧
    ∀ u ∈ g.nodeList, ∀ v ∈ g.nodeList,
      (h₀.addEdgesFromData (L.map (fun e => (π e.1, π e.2.1, e.2.2)))).edgeAttrs (π u) (π v) = g.edgeAttrs u v := by
  refine ⟨WF_addEdgesFromData hh _, node_addEdgesFromData_of_mem _ ?_, ?_⟩
  · intro e' he'
    obtain ⟨e, he, rfl⟩ := List.mem_map.1 he'
    exact ⟨hnodes _ (hg.left_mem_of_edgeAttrs (L1 e he)), hnodes _ (hg.right_mem_of_edgeAttrs (L1 e he))⟩
  · intro u hu v hv
    rw [edgeAttrs_addEdgesFromData hh, hempty]
    -- a renamed entry matching `{π u, π v}` is an entry for `{u, v}`
    have key : ∀ e ∈ L, EMatch (π e.1, π e.2.1, e.2.2) (π u) (π v) → g.edgeAttrs u v = some e.2.2 := by
      intro e he hm
      have h1 := L1 e he
      have m1 := hg.left_mem_of_edgeAttrs h1
      have m2 := hg.right_mem_of_edgeAttrs h1
      rcases hm with ⟨e1, e2⟩ | ⟨e1, e2⟩
      · simp only at e1 e2
        rw [inj u hu _ m1 e1, inj v hv _ m2 e2]; exact h1
      · simp only at e1 e2
        rw [inj u hu _ m2 e1, inj v hv _ m1 e2, hg.edgeAttrs_symm]; exact h1
    cases hguv : g.edgeAttrs u v with
    | none =>
      apply edgeAccum_of_no_match
      intro e' he' hm
      obtain ⟨e, he, rfl⟩ := List.mem_map.1 he'
      have := key e he hm
      rw [hguv] at this; cases this
    | some a =>
      apply edgeAccum_none_same _ _ _ (hg.eattrs_wf u v a hguv)
      · intro e' he' hm
        obtain ⟨e, he, rfl⟩ := List.mem_map.1 he'
        have := key e he hm
        rw [hguv] at this; simpa using this.symm
      · rcases L2 u v a hguv with h | h
        · exact ⟨_, List.mem_map.2 ⟨_, h, rfl⟩, Or.inl ⟨rfl, rfl⟩⟩
        · exact ⟨_, List.mem_map.2 ⟨_, h, rfl⟩, Or.inr ⟨rfl, rfl⟩⟩

end Graph

/-! ### `edgesData` -/

namespace Graph

theorem mem_edgesDataAux {items : List (Int × Dict Int Attrs)} {seen : List Int} {e : Int × Int × Attrs}
    (h : e ∈ edgesDataAux items seen) :
    ∃ nb, (e.1, nb) ∈ items ∧ (e.2.1, e.2.2) ∈ nb.items ∧ e.2.1 ∉ seen := by
  induction items generalizing seen with
  | nil => simp [edgesDataAux] at h
  | cons p items ih =>
    obtain ⟨n, nb⟩ := p
    simp only [edgesDataAux, List.mem_append, List.mem_filterMap] at h
    rcases h with ⟨q, hq, hq'⟩ | h
    · by_cases hs : q.1 ∈ seen
      · simp [hs] at hq'
      · simp only [hs, if_false, Option.some.injEq] at hq'
        subst hq'
        exact ⟨nb, by simp, hq, hs⟩
    · obtain ⟨nb', h1, h2, h3⟩ := ih h
      exact ⟨nb', by simp [h1], h2, fun hm => h3 (by simp [hm])⟩

theorem edgesDataAux_mem_of_split (pre post : List (Int × Dict Int Attrs)) (u : Int) (nb : Dict Int Attrs)
    (seen : List Int) (v : Int) (a : Attrs) (hva : (v, a) ∈ nb.items) (hs : v ∉ seen) (hp : v ∉ pre.map Prod.fst) :
    (u, v, a) ∈ edgesDataAux (pre ++ (u, nb) :: post) seen := by
  induction pre generalizing seen with
  | nil =>
    simp only [List.nil_append, edgesDataAux, List.mem_append, List.mem_filterMap]
    exact Or.inl ⟨(v, a), hva, by simp [hs]⟩
  | cons p pre ih =>
    obtain ⟨n, nb'⟩ := p
    simp only [List.map_cons, List.mem_cons, not_or] at hp
    simp only [List.cons_append, edgesDataAux, List.mem_append]
    exact Or.inr (ih (n :: seen) (by simp [hp.1, hs]) hp.2)

/-- every entry of `G.edges(data=True)` is a bond with its data -/
theorem edgeAttrs_of_mem_edgesData {g : Graph} (hg : g.WF) {e : Int × Int × Attrs} (h : e ∈ g.edgesData) :
    g.edgeAttrs e.1 e.2.1 = some e.2.2 := by
  obtain ⟨nb, h1, h2, -⟩ := mem_edgesDataAux h
  have h1' : g.adj.get? e.1 = some nb := Dict.get?_of_mem_items hg.adj_wf h1
  have h2' : nb.get? e.2.1 = some e.2.2 := Dict.get?_of_mem_items (hg.nbr_wf _ _ h1') h2
  simp [edgeAttrs, h1', h2']

/-- every bond is listed by `G.edges(data=True)` in (at least) one direction -/
theorem mem_edgesData_of_edgeAttrs {g : Graph} (hg : g.WF) {u v : Int} {a : Attrs} (h : g.edgeAttrs u v = some a) :
    (u, v, a) ∈ g.edgesData ∨ (v, u, a) ∈ g.edgesData := by
  have split : ∀ x y b, g.edgeAttrs x y = some b → ∃ nb, g.adj.get? x = some nb ∧ (y, b) ∈ nb.items := by
    intro x y b hb
    unfold edgeAttrs at hb
    cases hx : g.adj.get? x with
    | none => simp [hx] at hb
    | some nb => rw [hx] at hb; exact ⟨nb, rfl, Dict.mem_items_of_get? hb⟩
  obtain ⟨nb, hnb, hva⟩ := split u v a h
  obtain ⟨pre, post, hsplit⟩ := List.append_of_mem (Dict.mem_items_of_get? hnb)
  by_cases hv : v ∈ pre.map Prod.fst
  · right
    obtain ⟨⟨v', nb₂⟩, hmem, rfl⟩ := List.mem_map.1 hv
    obtain ⟨pre₂, mid, hpre⟩ := List.append_of_mem hmem
    have hitems : g.adj.items = pre₂ ++ (v', nb₂) :: (mid ++ (u, nb) :: post) := by
      rw [hsplit, hpre]; simp
    have hnd : (g.adj.items.map Prod.fst).Nodup := hg.adj_wf
    have hv' : g.adj.get? v' = some nb₂ :=
      Dict.get?_of_mem_items hg.adj_wf (by rw [hitems]; simp)
    obtain ⟨nb₂', hnb₂', hua⟩ := split v' u a (hg.symm u v' a h)
    rw [hv'] at hnb₂'; cases hnb₂'
    have hu : u ∉ pre₂.map Prod.fst := by
      intro hu
      rw [hitems] at hnd
      simp only [List.map_append, List.map_cons] at hnd
      have := (List.nodup_append.1 hnd).2.2 u hu u (by simp)
      exact this rfl
    unfold edgesData; rw [hitems]
    exact edgesDataAux_mem_of_split pre₂ _ v' nb₂ [] u a hua (by simp) hu
  · left
    unfold edgesData; rw [hsplit]
    exact edgesDataAux_mem_of_split pre post u nb [] v a hva (by simp) hv

/-! ### relabellings -/

theorem AttrsEq.refl (a : Attrs) : AttrsEq a a := fun _ => rfl
theorem AttrsEq.trans {a b c : Attrs} (h₁ : AttrsEq a b) (h₂ : AttrsEq b c) : AttrsEq a c :=
  fun k => (h₁ k).trans (h₂ k)

/-- a relabelling is determined by the view: node dicts and bond data carried along `π` -/
theorem IsRelabel.of_view {π : Int → Int} {g h : Graph} (hg : g.WF) (hh : h.WF)
    (inj : ∀ a ∈ g.nodeList, ∀ b ∈ g.nodeList, π a = π b → a = b)
    (nodes : h.nodeList.Perm (g.nodeList.map π))
    (hattr : ∀ n ∈ g.nodeList, h.node.get? (π n) = g.node.get? n)
    (hedge : ∀ u ∈ g.nodeList, ∀ v ∈ g.nodeList, h.edgeAttrs (π u) (π v) = g.edgeAttrs u v) :
    IsRelabel π g h where
  inj := inj
  nodes := nodes
  attrs := fun n hn k => by unfold attr; rw [hattr n hn]
  nbrs := by
    intro n hn
    refine (List.perm_ext_iff_of_nodup (hh.nodup_nbrs _) ?_).2 ?_
    · exact List.Nodup.map_on (fun x hx y hy e => inj x (hg.nbr_mem n x hx) y (hg.nbr_mem n y hy) e)
        (hg.nodup_nbrs n)
    · intro w
      constructor
      · intro hw
        have hw' := nodes.mem_iff.1 (hh.nbr_mem _ _ hw)
        obtain ⟨v, hv, rfl⟩ := List.mem_map.1 hw'
        rw [mem_nbrs_iff, hedge n hn v hv, ← mem_nbrs_iff] at hw
        exact List.mem_map.2 ⟨v, hw, rfl⟩
      · intro hw
        obtain ⟨v, hv, rfl⟩ := List.mem_map.1 hw
        rw [mem_nbrs_iff, hedge n hn v (hg.nbr_mem n v hv), ← mem_nbrs_iff]; exact hv
  eattrs := fun u hu v hv a ha => ⟨a, by rw [hedge u hu v hv, ha], AttrsEq.refl a⟩

theorem Same.refl (g : Graph) : Same g g where
  inj := fun _ _ _ _ e => e
  nodes := by simp
  attrs := fun _ _ _ => rfl
  nbrs := fun _ _ => by simp
  eattrs := fun _ _ _ _ a ha => ⟨a, ha, AttrsEq.refl a⟩

theorem IsRelabel.mem_nodeList {π : Int → Int} {g h : Graph} (r : IsRelabel π g h) {n : Int}
    (hn : n ∈ g.nodeList) : π n ∈ h.nodeList := r.nodes.mem_iff.2 (List.mem_map.2 ⟨n, hn, rfl⟩)

theorem IsRelabel.trans {π σ : Int → Int} {g h k : Graph} (r₁ : IsRelabel π g h) (r₂ : IsRelabel σ h k) :
    IsRelabel (σ ∘ π) g k where
  inj := fun a ha b hb e =>
    r₁.inj a ha b hb (r₂.inj _ (r₁.mem_nodeList ha) _ (r₁.mem_nodeList hb) e)
  nodes := by
    rw [← List.map_map]; exact r₂.nodes.trans (r₁.nodes.map σ)
  attrs := fun n hn key => by
    rw [Function.comp, r₂.attrs _ (r₁.mem_nodeList hn), r₁.attrs n hn]
  nbrs := fun n hn => by
    rw [← List.map_map]
    exact (r₂.nbrs _ (r₁.mem_nodeList hn)).trans ((r₁.nbrs n hn).map σ)
  eattrs := fun u hu v hv a ha => by
    obtain ⟨b, hb, hab⟩ := r₁.eattrs u hu v hv a ha
    obtain ⟨c, hc, hbc⟩ := r₂.eattrs _ (r₁.mem_nodeList hu) _ (r₁.mem_nodeList hv) b hb
    exact ⟨c, hc, hab.trans hbc⟩

theorem IsRelabel.trans_same {π : Int → Int} {g h k : Graph} (r₁ : IsRelabel π g h) (r₂ : Same h k) :
    IsRelabel π g k := by
  have := r₁.trans r₂; simpa using this

theorem Same.trans_relabel {π : Int → Int} {g h k : Graph} (r₁ : Same g h) (r₂ : IsRelabel π h k) :
    IsRelabel π g k := by
  have := IsRelabel.trans r₁ r₂; simpa using this

theorem IsRelabel.isIsoOn {π : Int → Int} {g h : Graph} (r : IsRelabel π g h) (key : String) :
    IsIsoOn key π g h := ⟨r.inj, r.nodes, fun n hn => r.attrs n hn key, r.nbrs⟩

theorem IsIsoOn.mem_nodeList {key : String} {π : Int → Int} {g h : Graph} (r : IsIsoOn key π g h) {n : Int}
    (hn : n ∈ g.nodeList) : π n ∈ h.nodeList := r.nodes.mem_iff.2 (List.mem_map.2 ⟨n, hn, rfl⟩)

theorem IsIsoOn.trans {key : String} {π σ : Int → Int} {g h k : Graph} (r₁ : IsIsoOn key π g h)
    (r₂ : IsIsoOn key σ h k) : IsIsoOn key (σ ∘ π) g k where
  inj := fun a ha b hb e =>
    r₁.inj a ha b hb (r₂.inj _ (r₁.mem_nodeList ha) _ (r₁.mem_nodeList hb) e)
  nodes := by
    rw [← List.map_map]; exact r₂.nodes.trans (r₁.nodes.map σ)
  attr := fun n hn => by
    rw [Function.comp, r₂.attr _ (r₁.mem_nodeList hn), r₁.attr n hn]
  nbrs := fun n hn => by
    rw [← List.map_map]
    exact (r₂.nbrs _ (r₁.mem_nodeList hn)).trans ((r₁.nbrs n hn).map σ)

end Graph

/-! ### `copy` -/

namespace Graph

/-- all adjacency entries `(u, v, data)`, both directions, in adjacency order -/
def adjTriples (g : Graph) : List (Int × Int × Attrs) :=
  g.adj.items.flatMap (fun p => p.2.items.map (fun q => (p.1, q.1, q.2)))

theorem copy_eq (g : Graph) :
    g.copy = (Graph.empty.addNodesFromData g.node.items).addEdgesFromData g.adjTriples := by
  simp [copy, addNodesFromData, addEdgesFromData, adjTriples, List.foldl_flatMap, List.foldl_map]

theorem edgeAttrs_of_mem_adjTriples {g : Graph} (hg : g.WF) {e : Int × Int × Attrs} (h : e ∈ g.adjTriples) :
    g.edgeAttrs e.1 e.2.1 = some e.2.2 := by
  simp only [adjTriples, List.mem_flatMap, List.mem_map] at h
  obtain ⟨⟨u, nb⟩, h1, ⟨v, a⟩, h2, rfl⟩ := h
  have h1' : g.adj.get? u = some nb := Dict.get?_of_mem_items hg.adj_wf h1
  have h2' : nb.get? v = some a := Dict.get?_of_mem_items (hg.nbr_wf _ _ h1') h2
  simp [edgeAttrs, h1', h2']

theorem mem_adjTriples_of_edgeAttrs {g : Graph} {u v : Int} {a : Attrs} (h : g.edgeAttrs u v = some a) :
    (u, v, a) ∈ g.adjTriples := by
  unfold edgeAttrs at h
  cases hx : g.adj.get? u with
  | none => simp [hx] at h
  | some nb =>
    rw [hx] at h
    simp only [adjTriples, List.mem_flatMap, List.mem_map]
    exact ⟨(u, nb), Dict.mem_items_of_get? hx, (v, a), Dict.mem_items_of_get? h, rfl⟩

/-- the graph with the given node dict and no bonds -/
def bare (nodes : List (Int × Attrs)) : Graph := ⟨⟨nodes⟩, ⟨nodes.map (fun p => (p.1, Dict.empty))⟩⟩

theorem bare_eq (ns : List (Int × Attrs)) (ha : ∀ p ∈ ns, p.2.WF) (hn : (ns.map Prod.fst).Nodup) :
    Graph.empty.addNodesFromData ns = bare ns := addNodesFromData_empty ns ha hn

theorem WF_bare (ns : List (Int × Attrs)) (ha : ∀ p ∈ ns, p.2.WF) (hn : (ns.map Prod.fst).Nodup) :
    (bare ns).WF := by
  rw [← bare_eq ns ha hn]; exact WF_addNodesFromData WF_empty ns ha

theorem edgeAttrs_bare (ns : List (Int × Attrs)) (x y : Int) : (bare ns).edgeAttrs x y = none := by
  have := edgeAttrs_mk_empty ⟨ns⟩ (ns.map Prod.fst) x y
  simpa [bare, List.map_map, Function.comp_def] using this

@[simp] theorem node_bare (ns : List (Int × Attrs)) : (bare ns).node = ⟨ns⟩ := rfl
@[simp] theorem nodeList_bare (ns : List (Int × Attrs)) : (bare ns).nodeList = ns.map Prod.fst := rfl

theorem WF.node_items_wf {g : Graph} (hg : g.WF) : ∀ p ∈ g.node.items, p.2.WF :=
  fun p hp => hg.attrs_wf p.1 p.2 (Dict.get?_of_mem_items hg.node_wf hp)

/-- `G.copy()`: well-formed, the very same node dict (order and attribute dicts), the very same bond data -/
theorem copy_spec {g : Graph} (hg : g.WF) :
    g.copy.WF ∧ g.copy.node = g.node ∧ ∀ u v, g.copy.edgeAttrs u v = g.edgeAttrs u v := by
  have hb := bare_eq g.node.items hg.node_items_wf hg.node_wf
  have hbw := WF_bare g.node.items hg.node_items_wf hg.node_wf
  have key := addEdgesFromData_rebuild hg hbw id (fun _ _ _ _ e => e) (fun n hn => hn)
    (edgeAttrs_bare _) g.adjTriples (fun e he => edgeAttrs_of_mem_adjTriples hg he)
    (fun u v a h => Or.inl (mem_adjTriples_of_edgeAttrs h))
  simp only [id, Prod.mk.eta, List.map_id'] at key
  rw [← hb, ← copy_eq] at key
  obtain ⟨k1, k2, k3⟩ := key
  have k2' : g.copy.node = g.node := by rw [k2, hb]; rfl
  refine ⟨k1, k2', fun u v => ?_⟩
  by_cases hu : u ∈ g.nodeList
  · by_cases hv : v ∈ g.nodeList
    · exact k3 u hu v hv
    · have h1 : g.edgeAttrs u v = none := by
        cases h : g.edgeAttrs u v with
        | none => rfl
        | some a => exact absurd (hg.right_mem_of_edgeAttrs h) hv
      have h2 : g.copy.edgeAttrs u v = none := by
        cases h : g.copy.edgeAttrs u v with
        | none => rfl
        | some a =>
          have := k1.right_mem_of_edgeAttrs h
          unfold nodeList at this hv; rw [k2'] at this; exact absurd this hv
      rw [h1, h2]
  · have h1 : g.edgeAttrs u v = none := by
      cases h : g.edgeAttrs u v with
      | none => rfl
      | some a => exact absurd (hg.left_mem_of_edgeAttrs h) hu
    have h2 : g.copy.edgeAttrs u v = none := by
      cases h : g.copy.edgeAttrs u v with
      | none => rfl
      | some a =>
        have := k1.left_mem_of_edgeAttrs h
        unfold nodeList at this hu; rw [k2'] at this; exact absurd this hu
    rw [h1, h2]

theorem WF_copy {g : Graph} (hg : g.WF) : g.copy.WF := (copy_spec hg).1
theorem node_copy {g : Graph} (hg : g.WF) : g.copy.node = g.node := (copy_spec hg).2.1
theorem nodeList_copy {g : Graph} (hg : g.WF) : g.copy.nodeList = g.nodeList := by
  unfold nodeList; rw [node_copy hg]
theorem edgeAttrs_copy {g : Graph} (hg : g.WF) (u v : Int) : g.copy.edgeAttrs u v = g.edgeAttrs u v :=
  (copy_spec hg).2.2 u v
theorem attr_copy {g : Graph} (hg : g.WF) (n : Int) (k : String) : g.copy.attr n k = g.attr n k := by
  unfold attr; rw [node_copy hg]
theorem nbrs_copy_perm {g : Graph} (hg : g.WF) (n : Int) : (g.copy.nbrs n).Perm (g.nbrs n) := by
  refine (List.perm_ext_iff_of_nodup ((WF_copy hg).nodup_nbrs n) (hg.nodup_nbrs n)).2 (fun v => ?_)
  rw [mem_nbrs_iff, mem_nbrs_iff, edgeAttrs_copy hg]

theorem same_copy {g : Graph} (hg : g.WF) : Same g g.copy :=
  IsRelabel.of_view hg (WF_copy hg) (fun _ _ _ _ e => e) (by simp [nodeList_copy hg])
    (fun n _ => by simp [node_copy hg]) (fun u _ v _ => edgeAttrs_copy hg u v)

end Graph

/-! ### node attribute updates (`set_node_attributes`, `G.nodes[n][k] = v`) -/

namespace Graph

/-- rewrite the attribute dict of node `n` (no-op for an unknown node) -/
def modNode (g : Graph) (n : Int) (f : Attrs → Attrs) : Graph :=
  match g.node.get? n with
  | some a => { g with node := g.node.set n (f a) }
  | none => g

def modNodes (g : Graph) (l : List (Int × (Attrs → Attrs))) : Graph :=
  l.foldl (fun g p => g.modNode p.1 p.2) g

@[simp] theorem adj_modNode (g : Graph) (n : Int) (f : Attrs → Attrs) : (g.modNode n f).adj = g.adj := by
  unfold modNode; split <;> rfl

theorem nodeList_modNode (g : Graph) (n : Int) (f : Attrs → Attrs) : (g.modNode n f).nodeList = g.nodeList := by
  unfold modNode; split
  · next a h => exact Dict.keys_set_of_mem _ _ (Dict.mem_keys_of_get? h)
  · rfl

theorem node_get?_modNode (g : Graph) (n : Int) (f : Attrs → Attrs) (x : Int) :
    (g.modNode n f).node.get? x = if x = n then (g.node.get? n).map f else g.node.get? x := by
  unfold modNode; split
  · next a h => simp only [Dict.get?_set, h, Option.map_some]
  · next h =>
    by_cases hx : x = n
    · subst hx; simp [h]
    · simp [hx]

@[simp] theorem edgeAttrs_modNode (g : Graph) (n : Int) (f : Attrs → Attrs) (u v : Int) :
    (g.modNode n f).edgeAttrs u v = g.edgeAttrs u v := by unfold edgeAttrs; rw [adj_modNode]
@[simp] theorem nbrs_modNode (g : Graph) (n : Int) (f : Attrs → Attrs) (u : Int) :
    (g.modNode n f).nbrs u = g.nbrs u := by unfold nbrs; rw [adj_modNode]

/-- a graph with the same adjacency, the same node order and well-formed attribute dicts is well-formed -/
theorem WF.of_adj_eq {g g' : Graph} (hg : g.WF) (hadj : g'.adj = g.adj) (hkeys : g'.nodeList = g.nodeList)
    (hattrs : ∀ n a, g'.node.get? n = some a → a.WF) : g'.WF := by
  have he : ∀ x y, g'.edgeAttrs x y = g.edgeAttrs x y := fun x y => by unfold edgeAttrs; rw [hadj]
  refine hg.of_edgeAttrs_eq ?_ ?_ ?_ hattrs ?_ he (fun n hn => hkeys ▸ hn)
  · show g'.nodeList.Nodup; rw [hkeys]; exact hg.node_wf
  · rw [hadj]; exact hg.adj_wf
  · rw [hadj, hg.adj_keys]; exact hkeys.symm
  · rw [hadj]; exact hg.nbr_wf

theorem WF_modNode {g : Graph} (hg : g.WF) (n : Int) {f : Attrs → Attrs} (hf : ∀ a, a.WF → (f a).WF) :
    (g.modNode n f).WF := by
  refine hg.of_adj_eq (adj_modNode g n f) (nodeList_modNode g n f) (fun x a hx => ?_)
  rw [node_get?_modNode] at hx
  by_cases h : x = n
  · rw [if_pos h] at hx
    cases ho : g.node.get? n with
    | none => rw [ho] at hx; cases hx
    | some b => rw [ho] at hx; simp only [Option.map_some, Option.some.injEq] at hx; rw [← hx]; exact hf b (hg.attrs_wf n b ho)
  · rw [if_neg h] at hx; exact hg.attrs_wf x a hx

theorem modNodes_nil (g : Graph) : g.modNodes [] = g := rfl
theorem modNodes_cons (g : Graph) (p : Int × (Attrs → Attrs)) (l : List (Int × (Attrs → Attrs))) :
    g.modNodes (p :: l) = (g.modNode p.1 p.2).modNodes l := rfl

@[simp] theorem adj_modNodes (g : Graph) (l : List (Int × (Attrs → Attrs))) : (g.modNodes l).adj = g.adj := by
  induction l generalizing g with
  | nil => rfl
  | cons p l ih => rw [modNodes_cons, ih, adj_modNode]

theorem nodeList_modNodes (g : Graph) (l : List (Int × (Attrs → Attrs))) : (g.modNodes l).nodeList = g.nodeList := by
  induction l generalizing g with
  | nil => rfl
  | cons p l ih => rw [modNodes_cons, ih, nodeList_modNode]

@[simp] theorem edgeAttrs_modNodes (g : Graph) (l : List (Int × (Attrs → Attrs))) (u v : Int) :
    (g.modNodes l).edgeAttrs u v = g.edgeAttrs u v := by unfold edgeAttrs; rw [adj_modNodes]
@[simp] theorem nbrs_modNodes (g : Graph) (l : List (Int × (Attrs → Attrs))) (u : Int) :
    (g.modNodes l).nbrs u = g.nbrs u := by unfold nbrs; rw [adj_modNodes]

theorem WF_modNodes {g : Graph} (hg : g.WF) (l : List (Int × (Attrs → Attrs)))
    (hf : ∀ p ∈ l, ∀ a, a.WF → (p.2 a).WF) : (g.modNodes l).WF := by
  induction l generalizing g with
  | nil => exact hg
  | cons p l ih =>
    rw [modNodes_cons]
    exact ih (WF_modNode hg p.1 (hf p (by simp))) (fun q hq => hf q (by simp [hq]))

theorem node_get?_modNodes_of_not_mem (g : Graph) (l : List (Int × (Attrs → Attrs))) (x : Int)
    (h : x ∉ l.map Prod.fst) : (g.modNodes l).node.get? x = g.node.get? x := by
  induction l generalizing g with
  | nil => rfl
  | cons p l ih =>
    simp only [List.map_cons, List.mem_cons, not_or] at h
    rw [modNodes_cons, ih _ h.2, node_get?_modNode, if_neg h.1]

/-- attributes that every rewriting function leaves alone are unchanged -/
theorem attr_modNodes_of_preserved (g : Graph) (l : List (Int × (Attrs → Attrs))) (k : String)
    (hf : ∀ p ∈ l, ∀ a, (p.2 a).get? k = a.get? k) (x : Int) : (g.modNodes l).attr x k = g.attr x k := by
  induction l generalizing g with
  | nil => rfl
  | cons p l ih =>
    rw [modNodes_cons, ih _ (fun q hq => hf q (by simp [hq]))]
    unfold attr
    rw [node_get?_modNode]
    by_cases hx : x = p.1
    · rw [if_pos hx, hx]
      cases g.node.get? p.1 with
      | none => rfl
      | some a => simp [hf p (by simp) a]
    · rw [if_neg hx]

/-- for distinct target nodes, each listed node gets its function applied once -/
theorem node_get?_modNodes_of_nodup (g : Graph) (l : List (Int × (Attrs → Attrs))) (x : Int)
    (h : (l.map Prod.fst).Nodup) :
    (g.modNodes l).node.get? x =
      match List.lookup x l with
      | some f => (g.node.get? x).map f
      | none => g.node.get? x := by
  induction l generalizing g with
  | nil => rfl
  | cons p l ih =>
    obtain ⟨n, f⟩ := p
    simp only [List.map_cons, List.nodup_cons] at h
    rw [modNodes_cons, lookup_cons']
    by_cases hx : x = n
    · subst hx
      rw [if_pos rfl, node_get?_modNodes_of_not_mem _ _ _ h.1, node_get?_modNode, if_pos rfl]
    · rw [if_neg hx, ih _ h.2, node_get?_modNode, if_neg hx]

/-! #### the networkx calls as instances -/

theorem setNodeAttrNamed_eq (g : Graph) (values : Dict Int Val) (name : String) :
    g.setNodeAttrNamed values name = g.modNodes (values.items.map (fun p => (p.1, fun a => a.set name p.2))) := by
  simp only [setNodeAttrNamed, modNodes, List.foldl_map, modNode]; rfl

theorem setNodeAttrDicts_eq (g : Graph) (values : Dict Int Attrs) :
    g.setNodeAttrDicts values = g.modNodes (values.items.map (fun p => (p.1, fun a => a.update p.2))) := by
  simp only [setNodeAttrDicts, modNodes, List.foldl_map, modNode]; rfl

theorem setNodeAttr1_eq (g : Graph) (n : Int) (name : String) (v : Val) :
    g.setNodeAttr1 n name v =
      if n ∈ g.nodeList then .ok (g.modNode n (fun a => a.set name v)) else .error .key := by
  unfold setNodeAttr1 modNode
  cases h : g.node.get? n with
  | none =>
    have : n ∉ g.nodeList := (Dict.get?_eq_none_iff _ _).1 h
    rw [if_neg this]; rfl
  | some a =>
    have : n ∈ g.nodeList := Dict.mem_keys_of_get? h
    rw [if_pos this]; rfl

-- setNodeAttrNamed
theorem WF_setNodeAttrNamed {g : Graph} (hg : g.WF) (values : Dict Int Val) (name : String) :
    (g.setNodeAttrNamed values name).WF := by
  rw [setNodeAttrNamed_eq]
  refine WF_modNodes hg _ (fun p hp a ha => ?_)
  obtain ⟨q, _, rfl⟩ := List.mem_map.1 hp
  exact Dict.WF_set ha _ _
@[simp] theorem adj_setNodeAttrNamed (g : Graph) (values : Dict Int Val) (name : String) :
    (g.setNodeAttrNamed values name).adj = g.adj := by rw [setNodeAttrNamed_eq, adj_modNodes]
theorem nodeList_setNodeAttrNamed (g : Graph) (values : Dict Int Val) (name : String) :
    (g.setNodeAttrNamed values name).nodeList = g.nodeList := by rw [setNodeAttrNamed_eq, nodeList_modNodes]
@[simp] theorem edgeAttrs_setNodeAttrNamed (g : Graph) (values : Dict Int Val) (name : String) (u v : Int) :
    (g.setNodeAttrNamed values name).edgeAttrs u v = g.edgeAttrs u v := by
  rw [setNodeAttrNamed_eq, edgeAttrs_modNodes]
@[simp] theorem nbrs_setNodeAttrNamed (g : Graph) (values : Dict Int Val) (name : String) (u : Int) :
    (g.setNodeAttrNamed values name).nbrs u = g.nbrs u := by rw [setNodeAttrNamed_eq, nbrs_modNodes]
/-- other attributes are untouched -/
theorem attr_setNodeAttrNamed_ne (g : Graph) (values : Dict Int Val) (name : String) (n : Int) {k : String}
    (hk : k ≠ name) : (g.setNodeAttrNamed values name).attr n k = g.attr n k := by
  rw [setNodeAttrNamed_eq]
  refine attr_modNodes_of_preserved g _ k (fun p hp a => ?_) n
  obtain ⟨q, _, rfl⟩ := List.mem_map.1 hp
  exact Dict.get?_set_ne _ _ hk
/-- the named attribute of a node takes the value from `values` if there is one -/
theorem attr_setNodeAttrNamed_self (g : Graph) {values : Dict Int Val} (hv : values.WF) (name : String) {n : Int}
    (hn : n ∈ g.nodeList) :
    (g.setNodeAttrNamed values name).attr n name = (values.get? n).or (g.attr n name) := by
  rw [setNodeAttrNamed_eq]
  unfold attr
  rw [node_get?_modNodes_of_nodup]
  · obtain ⟨a, ha⟩ := Dict.exists_get?_of_mem_keys hn
    have := lookup_map_snd values.items (fun (_ : Int) (v : Val) => fun (a : Attrs) => a.set name v) n
    rw [this, ha]
    have e : values.get? n = List.lookup n values.items := rfl
    rw [e]
    cases List.lookup n values.items with
    | none => simp
    | some v => simp
  · simp only [List.map_map, Function.comp_def]; exact hv

-- setNodeAttrDicts
theorem WF_setNodeAttrDicts {g : Graph} (hg : g.WF) (values : Dict Int Attrs) : (g.setNodeAttrDicts values).WF := by
  rw [setNodeAttrDicts_eq]
  refine WF_modNodes hg _ (fun p hp a ha => ?_)
  obtain ⟨q, _, rfl⟩ := List.mem_map.1 hp
  exact Dict.WF_update ha _
@[simp] theorem adj_setNodeAttrDicts (g : Graph) (values : Dict Int Attrs) :
    (g.setNodeAttrDicts values).adj = g.adj := by rw [setNodeAttrDicts_eq, adj_modNodes]
theorem nodeList_setNodeAttrDicts (g : Graph) (values : Dict Int Attrs) :
    (g.setNodeAttrDicts values).nodeList = g.nodeList := by rw [setNodeAttrDicts_eq, nodeList_modNodes]
@[simp] theorem edgeAttrs_setNodeAttrDicts (g : Graph) (values : Dict Int Attrs) (u v : Int) :
    (g.setNodeAttrDicts values).edgeAttrs u v = g.edgeAttrs u v := by
  rw [setNodeAttrDicts_eq, edgeAttrs_modNodes]
@[simp] theorem nbrs_setNodeAttrDicts (g : Graph) (values : Dict Int Attrs) (u : Int) :
    (g.setNodeAttrDicts values).nbrs u = g.nbrs u := by rw [setNodeAttrDicts_eq, nbrs_modNodes]
theorem node_get?_setNodeAttrDicts (g : Graph) {values : Dict Int Attrs} (hv : values.WF) (n : Int) :
    (g.setNodeAttrDicts values).node.get? n =
      match values.get? n with
      | some d => (g.node.get? n).map (fun a => a.update d)
      | none => g.node.get? n := by
  rw [setNodeAttrDicts_eq, node_get?_modNodes_of_nodup]
  · have := lookup_map_snd values.items (fun (_ : Int) (d : Attrs) => fun (a : Attrs) => a.update d) n
    rw [this]
    have e : values.get? n = List.lookup n values.items := rfl
    rw [e]
    cases List.lookup n values.items <;> rfl
  · simp only [List.map_map, Function.comp_def]; exact hv

-- setNodeAttrScalar
theorem nodeList_setNodeAttrScalar (g : Graph) (v : Val) (name : String) :
    (g.setNodeAttrScalar v name).nodeList = g.nodeList := by
  simp [setNodeAttrScalar, nodeList, Dict.keys, List.map_map, Function.comp_def]
@[simp] theorem adj_setNodeAttrScalar (g : Graph) (v : Val) (name : String) :
    (g.setNodeAttrScalar v name).adj = g.adj := rfl
@[simp] theorem edgeAttrs_setNodeAttrScalar (g : Graph) (v : Val) (name : String) (x y : Int) :
    (g.setNodeAttrScalar v name).edgeAttrs x y = g.edgeAttrs x y := rfl
@[simp] theorem nbrs_setNodeAttrScalar (g : Graph) (v : Val) (name : String) (x : Int) :
    (g.setNodeAttrScalar v name).nbrs x = g.nbrs x := rfl
theorem node_get?_setNodeAttrScalar (g : Graph) (v : Val) (name : String) (n : Int) :
    (g.setNodeAttrScalar v name).node.get? n = (g.node.get? n).map (fun a => a.set name v) :=
  lookup_map_snd g.node.items (fun _ a => a.set name v) n
theorem WF_setNodeAttrScalar {g : Graph} (hg : g.WF) (v : Val) (name : String) :
    (g.setNodeAttrScalar v name).WF := by
  refine hg.of_adj_eq rfl (nodeList_setNodeAttrScalar g v name) (fun n a hn => ?_)
  rw [node_get?_setNodeAttrScalar] at hn
  cases h : g.node.get? n with
  | none => rw [h] at hn; cases hn
  | some b =>
    rw [h] at hn; simp only [Option.map_some, Option.some.injEq] at hn
    rw [← hn]; exact Dict.WF_set (hg.attrs_wf n b h) _ _
theorem attr_setNodeAttrScalar (g : Graph) (v : Val) (name : String) (n : Int) (k : String) :
    (g.setNodeAttrScalar v name).attr n k =
      if k = name then (g.node.get? n).map (fun _ => v) else g.attr n k := by
  unfold attr
  rw [node_get?_setNodeAttrScalar]
  cases g.node.get? n with
  | none => simp
  | some a => simp [Dict.get?_set]

-- setNodeAttr1
theorem setNodeAttr1_ok {g : Graph} (hg : g.WF) {n : Int} (hn : n ∈ g.nodeList) (name : String) (v : Val) :
    ∃ g', g.setNodeAttr1 n name v = .ok g' ∧ g'.WF ∧ g'.adj = g.adj ∧ g'.nodeList = g.nodeList ∧
      (∀ x, g'.node.get? x = if x = n then (g.node.get? n).map (fun a => a.set name v) else g.node.get? x) := by
  refine ⟨g.modNode n (fun a => a.set name v), ?_, ?_, adj_modNode _ _ _, nodeList_modNode _ _ _,
    node_get?_modNode _ _ _⟩
  · rw [setNodeAttr1_eq, if_pos hn]
  · exact WF_modNode hg n (fun a ha => Dict.WF_set ha _ _)

end Graph

/-! ### `relabel_nodes(G, mapping, copy=True)` -/

namespace Graph

/-- the renaming induced by a mapping dict: unmapped labels stay -/
def relabelFun (mapping : Dict Int Int) (n : Int) : Int := (mapping.get? n).getD n

theorem relabelCopy_eq (g : Graph) (mapping : Dict Int Int) :
    g.relabelCopy mapping =
      let π := relabelFun mapping
      let h := Graph.empty.addNodesFromData (g.node.items.map (fun (p : Int × Attrs) => (π p.1, Dict.empty)))
      let h := { h with node := h.node.updatePairs (g.node.items.map (fun (p : Int × Attrs) => (π p.1, p.2))) }
      h.addEdgesFromData (g.edgesData.map (fun (e : Int × Int × Attrs) => (π e.1, π e.2.1, e.2.2))) := by
  simp only [relabelCopy, addNodesFromData, addEdgesFromData, List.foldl_map]
  rfl

private theorem updatePairs_overwrite {κ ν : Type} [DecidableEq κ] (l : List (κ × ν)) (c : ν)
    (hn : (l.map Prod.fst).Nodup) :
    (Dict.mk (l.map (fun p => (p.1, c)))).updatePairs l = ⟨l⟩ := by
  have hk0 : (Dict.mk (l.map (fun p => (p.1, c)))).keys = l.map Prod.fst := by
    simp [List.map_map, Function.comp_def]
  have hwf0 : (Dict.mk (l.map (fun p => (p.1, c)))).WF := by unfold Dict.WF; rw [hk0]; exact hn
  refine Dict.ext_keys_get? (Dict.WF_updatePairs hwf0 _) ?_ (fun k => ?_)
  · rw [Dict.keys_updatePairs_of_subset, hk0]; rfl
    intro p hp; rw [hk0]; exact List.mem_map.2 ⟨p, hp, rfl⟩
  · rw [Dict.get?_updatePairs_of_nodup _ _ _ hn]
    show (List.lookup k l).or _ = List.lookup k l
    cases h : List.lookup k l with
    | some v => rfl
    | none =>
      have : k ∉ (Dict.mk (l.map (fun p => (p.1, c)))).keys := by
        rw [hk0]; exact (lookup_eq_none_iff' l k).1 h
      rw [(Dict.get?_eq_none_iff _ _).2 this]; rfl

/-- for a renaming injective on the nodes, `relabel_nodes` = renamed node dict + renamed bond list -/
theorem relabelCopy_eq_of_inj {g : Graph} (hg : g.WF) (mapping : Dict Int Int)
    (inj : ∀ a ∈ g.nodeList, ∀ b ∈ g.nodeList, relabelFun mapping a = relabelFun mapping b → a = b) :
    g.relabelCopy mapping =
      (bare (g.node.items.map (fun p => (relabelFun mapping p.1, p.2)))).addEdgesFromData
        (g.edgesData.map (fun e => (relabelFun mapping e.1, relabelFun mapping e.2.1, e.2.2))) := by
  rw [relabelCopy_eq]
  simp only
  generalize relabelFun mapping = π at *
  have hnd : ((g.node.items.map (fun p => (π p.1, p.2))).map Prod.fst).Nodup := by
    rw [List.map_map]
    have : (Prod.fst ∘ fun p : Int × Attrs => (π p.1, p.2)) = π ∘ Prod.fst := rfl
    rw [this, ← List.map_map]
    exact List.Nodup.map_on inj hg.node_wf
  have hnd0 : ((g.node.items.map (fun p => (π p.1, (Dict.empty : Attrs)))).map Prod.fst).Nodup := by
    rw [List.map_map] at hnd ⊢; exact hnd
  rw [bare_eq _ (fun p hp => by
    obtain ⟨q, _, rfl⟩ := List.mem_map.1 hp; exact Dict.WF_empty) hnd0]
  congr 1
  unfold bare
  congr 1
  · have := updatePairs_overwrite (g.node.items.map (fun p => (π p.1, p.2))) (Dict.empty : Attrs) hnd
    simp only [List.map_map, Function.comp_def] at this ⊢
    exact this
  · simp [List.map_map, Function.comp_def]

/-- **`relabel_nodes` with a renaming injective on the nodes.** -/
theorem relabelCopy_spec {g : Graph} (hg : g.WF) (mapping : Dict Int Int)
    (inj : ∀ a ∈ g.nodeList, ∀ b ∈ g.nodeList, relabelFun mapping a = relabelFun mapping b → a = b) :
    (g.relabelCopy mapping).WF ∧
    (g.relabelCopy mapping).node = ⟨g.node.items.map (fun p => (relabelFun mapping p.1, p.2))⟩ ∧
    (∀ u ∈ g.nodeList, ∀ v ∈ g.nodeList,
      (g.relabelCopy mapping).edgeAttrs (relabelFun mapping u) (relabelFun mapping v) = g.edgeAttrs u v) := by
  rw [relabelCopy_eq_of_inj hg mapping inj]
  generalize relabelFun mapping = π at *
  have hnd : ((g.node.items.map (fun p => (π p.1, p.2))).map Prod.fst).Nodup := by
    rw [List.map_map]
    have : (Prod.fst ∘ fun p : Int × Attrs => (π p.1, p.2)) = π ∘ Prod.fst := rfl
    rw [this, ← List.map_map]
    exact List.Nodup.map_on inj hg.node_wf
  have hbw : (bare (g.node.items.map (fun p => (π p.1, p.2)))).WF :=
    WF_bare _ (fun p hp => by
      obtain ⟨q, hq, rfl⟩ := List.mem_map.1 hp; exact hg.node_items_wf q hq) hnd
  exact addEdgesFromData_rebuild hg hbw π inj
    (fun n hn => by
      obtain ⟨p, hp, rfl⟩ := List.mem_map.1 (show n ∈ g.node.items.map Prod.fst from hn)
      simp only [nodeList_bare, List.map_map, List.mem_map, Function.comp]
      exact ⟨p, hp, rfl⟩)
    (edgeAttrs_bare _) g.edgesData (fun e he => edgeAttrs_of_mem_edgesData hg he)
    (fun u v a h => mem_edgesData_of_edgeAttrs hg h)

section
variable {g : Graph} (hg : g.WF) (mapping : Dict Int Int)
  (inj : ∀ a ∈ g.nodeList, ∀ b ∈ g.nodeList, relabelFun mapping a = relabelFun mapping b → a = b)
include hg inj

theorem WF_relabelCopy : (g.relabelCopy mapping).WF := (relabelCopy_spec hg mapping inj).1

/-- same node order -/
theorem nodeList_relabelCopy : (g.relabelCopy mapping).nodeList = g.nodeList.map (relabelFun mapping) := by
  unfold nodeList
  rw [(relabelCopy_spec hg mapping inj).2.1]
  simp [Dict.keys, List.map_map, Function.comp_def]

/-- node attribute dicts are carried unchanged -/
theorem node_get?_relabelCopy {n : Int} (hn : n ∈ g.nodeList) :
    (g.relabelCopy mapping).node.get? (relabelFun mapping n) = g.node.get? n := by
  rw [(relabelCopy_spec hg mapping inj).2.1]
  exact lookup_map_inj g.node.items (relabelFun mapping) n (fun a ha e => inj a ha n hn e)

theorem edgeAttrs_relabelCopy {u v : Int} (hu : u ∈ g.nodeList) (hv : v ∈ g.nodeList) :
    (g.relabelCopy mapping).edgeAttrs (relabelFun mapping u) (relabelFun mapping v) = g.edgeAttrs u v :=
  (relabelCopy_spec hg mapping inj).2.2 u hu v hv

theorem isRelabel_relabelCopy : IsRelabel (relabelFun mapping) g (g.relabelCopy mapping) :=
  IsRelabel.of_view hg (WF_relabelCopy hg mapping inj) inj
    (by rw [nodeList_relabelCopy hg mapping inj])
    (fun n hn => node_get?_relabelCopy hg mapping inj hn)
    (fun u hu v hv => edgeAttrs_relabelCopy hg mapping inj hu hv)

theorem numberOfNodes_relabelCopy : (g.relabelCopy mapping).numberOfNodes = g.numberOfNodes := by
  rw [numberOfNodes_eq, numberOfNodes_eq, nodeList_relabelCopy hg mapping inj, List.length_map]

end

end Graph

/-! ### relabelling with `dict(zip(ks, vs))`; `convert_node_labels_to_integers` -/

namespace Graph

theorem relabelFun_zip {ks vs : List Int} (hn : ks.Nodup) (hl : ks.length = vs.length) {k : Int} (hk : k ∈ ks) :
    relabelFun (Dict.ofPairs (zip ks vs)) k = vs[ks.idxOf k]'(hl ▸ List.idxOf_lt_length_of_mem hk) := by
  unfold relabelFun; rw [Dict.get?_ofPairs_zip_of_mem hn hl hk]; rfl

theorem relabelFun_zip_of_not_mem {ks vs : List Int} (hn : ks.Nodup) (hl : ks.length = vs.length) {k : Int}
    (hk : k ∉ ks) : relabelFun (Dict.ofPairs (zip ks vs)) k = k := by
  unfold relabelFun
  rw [Dict.get?_ofPairs_zip hn hl, List.getElem?_eq_none]; rfl
  rw [← hl, List.idxOf_eq_length_iff.2 hk]

theorem map_relabelFun_zip {ks vs : List Int} (hn : ks.Nodup) (hl : ks.length = vs.length) :
    ks.map (relabelFun (Dict.ofPairs (zip ks vs))) = vs := by
  apply List.ext_getElem
  · simp [hl]
  · intro i h1 h2
    rw [List.getElem_map, relabelFun_zip hn hl (List.getElem_mem _)]
    congr 1
    exact hn.idxOf_getElem i _

theorem relabelFun_zip_injOn {ks vs : List Int} (hn : ks.Nodup) (hvs : vs.Nodup) (hl : ks.length = vs.length) :
    ∀ a ∈ ks, ∀ b ∈ ks, relabelFun (Dict.ofPairs (zip ks vs)) a = relabelFun (Dict.ofPairs (zip ks vs)) b → a = b := by
  intro a ha b hb e
  rw [relabelFun_zip hn hl ha, relabelFun_zip hn hl hb] at e
  have := (hvs.getElem_inj_iff).1 e
  exact (List.idxOf_inj ha).1 this

theorem nodup_range (n : Int) : (range n).Nodup := by
  unfold range
  exact List.Nodup.map (fun a b e => by simpa using e) List.nodup_range

theorem length_range (n : Int) : (range n).length = n.toNat := by simp [range]

theorem length_range_numberOfNodes (g : Graph) : (range g.numberOfNodes).length = g.nodeList.length := by
  rw [length_range, numberOfNodes_eq]; simp

theorem IsRelabel.congr {π π' : Int → Int} {g h : Graph} (hg : g.WF) (r : IsRelabel π g h)
    (e : ∀ n ∈ g.nodeList, π n = π' n) : IsRelabel π' g h where
  inj := fun a ha b hb hab => r.inj a ha b hb (by rw [e a ha, e b hb]; exact hab)
  nodes := by rw [← List.map_congr_left e]; exact r.nodes
  attrs := fun n hn k => by rw [← e n hn]; exact r.attrs n hn k
  nbrs := fun n hn => by
    rw [← e n hn, ← List.map_congr_left (fun v hv => e v (hg.nbr_mem n v hv))]; exact r.nbrs n hn
  eattrs := fun u hu v hv a ha => by rw [← e u hu, ← e v hv]; exact r.eattrs u hu v hv a ha

/-- relabelling by `dict(zip(ks, vs))` where `ks` lists the nodes (in any order) and `vs` are distinct -/
theorem relabelCopy_zip_spec {g : Graph} (hg : g.WF) {ks vs : List Int} (hp : ks.Perm g.nodeList)
    (hvs : vs.Nodup) (hl : ks.length = vs.length) :
    (g.relabelCopy (Dict.ofPairs (zip ks vs))).WF ∧
    (g.relabelCopy (Dict.ofPairs (zip ks vs))).nodeList = g.nodeList.map (relabelFun (Dict.ofPairs (zip ks vs))) ∧
    (g.relabelCopy (Dict.ofPairs (zip ks vs))).nodeList.Perm vs ∧
    IsRelabel (relabelFun (Dict.ofPairs (zip ks vs))) g (g.relabelCopy (Dict.ofPairs (zip ks vs))) := by
  have hn : ks.Nodup := hp.nodup_iff.2 hg.nodup_nodeList
  have inj : ∀ a ∈ g.nodeList, ∀ b ∈ g.nodeList,
      relabelFun (Dict.ofPairs (zip ks vs)) a = relabelFun (Dict.ofPairs (zip ks vs)) b → a = b :=
    fun a ha b hb => relabelFun_zip_injOn hn hvs hl a (hp.mem_iff.2 ha) b (hp.mem_iff.2 hb)
  refine ⟨WF_relabelCopy hg _ inj, nodeList_relabelCopy hg _ inj, ?_, isRelabel_relabelCopy hg _ inj⟩
  rw [nodeList_relabelCopy hg _ inj]
  have := (hp.map (relabelFun (Dict.ofPairs (zip ks vs)))).symm
  rwa [map_relabelFun_zip hn hl] at this

/-- `nx.convert_node_labels_to_integers(G)`: node `i` of the result is the `i`-th node of `G` -/
theorem convertNodeLabelsToIntegers_spec {g : Graph} (hg : g.WF) :
    g.convertNodeLabelsToIntegers.WF ∧
    g.convertNodeLabelsToIntegers.nodeList = range g.numberOfNodes ∧
    IsRelabel (fun n => Int.ofNat (g.nodeList.idxOf n)) g g.convertNodeLabelsToIntegers ∧
    (∀ n ∈ g.nodeList, g.convertNodeLabelsToIntegers.node.get? (Int.ofNat (g.nodeList.idxOf n)) = g.node.get? n) := by
  unfold convertNodeLabelsToIntegers
  have hl := (length_range_numberOfNodes g).symm
  have hn := hg.nodup_nodeList
  obtain ⟨h1, h2, -, h4⟩ := relabelCopy_zip_spec hg (List.Perm.refl _) (nodup_range g.numberOfNodes) hl
  have hpos : ∀ n ∈ g.nodeList,
      relabelFun (Dict.ofPairs (zip g.nodeList (range g.numberOfNodes))) n = Int.ofNat (g.nodeList.idxOf n) := by
    intro n hn'
    rw [relabelFun_zip hn hl hn']
    simp [range]
  refine ⟨h1, ?_, h4.congr hg hpos, fun n hn' => ?_⟩
  · rw [h2, map_relabelFun_zip hn hl]
  · rw [← hpos n hn']
    exact node_get?_relabelCopy hg _
      (fun a ha b hb => relabelFun_zip_injOn hn (nodup_range _) hl a ha b hb) hn'

end Graph

/-! ### counting bonds: `number_of_edges` is invariant under relabelling -/

namespace Graph

/-- all ordered pairs `(u, v)` with `v` adjacent to `u` -/
def dirPairs (g : Graph) : List (Int × Int) := g.nodeList.flatMap (fun u => (g.nbrs u).map (fun v => (u, v)))
/-- nodes with a self-loop -/
def loopNodes (g : Graph) : List Int := g.nodeList.filter (fun u => decide (u ∈ g.nbrs u))

theorem mem_dirPairs {g : Graph} (hg : g.WF) (u v : Int) : (u, v) ∈ g.dirPairs ↔ v ∈ g.nbrs u := by
  simp only [dirPairs, List.mem_flatMap, List.mem_map, Prod.mk.injEq]
  constructor
  · rintro ⟨u', _, v', hv', rfl, rfl⟩; exact hv'
  · intro h
    refine ⟨u, ?_, v, h, rfl, rfl⟩
    rw [mem_nbrs_iff] at h
    obtain ⟨a, ha⟩ := Option.isSome_iff_exists.1 h
    exact hg.left_mem_of_edgeAttrs ha

theorem nodup_dirPairs {g : Graph} (hg : g.WF) : g.dirPairs.Nodup := by
  unfold dirPairs
  rw [List.nodup_flatMap]
  refine ⟨fun u _ => (hg.nodup_nbrs u).map (fun a b e => by simpa using e), ?_⟩
  refine hg.nodup_nodeList.imp ?_
  intro a b hab
  simp only [Function.onFun, List.disjoint_left, List.mem_map]
  rintro x ⟨v, _, rfl⟩ ⟨v', _, e⟩
  exact hab (by simpa using (congrArg Prod.fst e).symm)

theorem length_dirPairs (g : Graph) : g.dirPairs.length = (g.nodeList.map (fun u => (g.nbrs u).length)).sum := by
  simp [dirPairs, List.length_flatMap]

private theorem head_pairs (n : Int) (seen : List Int) (l : List (Int × Attrs)) :
    (l.filterMap (fun p => if p.1 ∈ seen then none else some (n, p.1, p.2))).map (fun e => (e.1, e.2.1))
      = ((l.map Prod.fst).filter (fun v => decide (v ∉ seen))).map (fun v => (n, v)) := by
  induction l with
  | nil => rfl
  | cons p l ih =>
    by_cases h : p.1 ∈ seen
    · simp [h, ih]
    · simp [h, ih]

private theorem mem_head (n : Int) (seen : List Int) (l : List (Int × Attrs)) (e : Int × Int × Attrs) :
    e ∈ l.filterMap (fun p => if p.1 ∈ seen then none else some (n, p.1, p.2)) ↔
      e.1 = n ∧ (e.2.1, e.2.2) ∈ l ∧ e.2.1 ∉ seen := by
  simp only [List.mem_filterMap]
  constructor
  · rintro ⟨p, hp, h⟩
    by_cases hs : p.1 ∈ seen
    · simp [hs] at h
    · simp only [hs, if_false, Option.some.injEq] at h
      subst h; exact ⟨rfl, hp, hs⟩
  · rintro ⟨h1, h2, h3⟩
    exact ⟨(e.2.1, e.2.2), h2, by simp [h3, ← h1]⟩

theorem nodup_pairs_edgesDataAux (items : List (Int × Dict Int Attrs)) (seen : List Int)
    (hk : (items.map Prod.fst).Nodup) (hnb : ∀ p ∈ items, p.2.WF) :
    ((edgesDataAux items seen).map (fun e => (e.1, e.2.1))).Nodup := by
  induction items generalizing seen with
  | nil => simp [edgesDataAux]
  | cons p items ih =>
    obtain ⟨n, nb⟩ := p
    simp only [List.map_cons, List.nodup_cons] at hk
    simp only [edgesDataAux, List.map_append]
    rw [List.nodup_append]
    refine ⟨?_, ih _ hk.2 (fun q hq => hnb q (by simp [hq])), ?_⟩
    · rw [head_pairs]
      exact ((hnb (n, nb) (by simp)).filter _).map (fun a b e => by simpa using e)
    · intro x hx y hy hxy
      subst hxy
      rw [head_pairs] at hx
      obtain ⟨v, _, rfl⟩ := List.mem_map.1 hx
      obtain ⟨e, he, he'⟩ := List.mem_map.1 hy
      obtain ⟨nb', h1, -, -⟩ := mem_edgesDataAux he
      have : e.1 = n := by simpa using congrArg Prod.fst he'
      rw [this] at h1
      exact hk.1 (List.mem_map.2 ⟨_, h1, rfl⟩)

theorem edgesDataAux_antisymm (items : List (Int × Dict Int Attrs)) (seen : List Int)
    (hk : (items.map Prod.fst).Nodup) {u v : Int} {a b : Attrs}
    (h1 : (u, v, a) ∈ edgesDataAux items seen) (hne : u ≠ v) : (v, u, b) ∉ edgesDataAux items seen := by
  induction items generalizing seen with
  | nil => simp [edgesDataAux] at h1
  | cons p items ih =>
    obtain ⟨n, nb⟩ := p
    simp only [List.map_cons, List.nodup_cons] at hk
    simp only [edgesDataAux, List.mem_append] at h1 ⊢
    rw [mem_head] at h1 ⊢
    rintro (⟨e1, -, -⟩ | h2)
    · simp only at e1
      rcases h1 with ⟨e1', -, -⟩ | h1
      · simp only at e1'; exact hne (e1'.trans e1.symm)
      · obtain ⟨_, -, -, h3⟩ := mem_edgesDataAux h1
        simp only at h3
        exact h3 (by simp [e1])
    · rcases h1 with ⟨e1', -, -⟩ | h1
      · simp only at e1'
        obtain ⟨_, -, -, h3⟩ := mem_edgesDataAux h2
        simp only at h3
        exact h3 (by simp [e1'])
      · exact ih _ hk.2 h1 h2

/-- the endpoint pairs of `G.edges` -/
theorem edges_eq (g : Graph) : g.edges = g.edgesData.map (fun e => (e.1, e.2.1)) := rfl

theorem nodup_edges {g : Graph} (hg : g.WF) : g.edges.Nodup :=
  nodup_pairs_edgesDataAux _ _ hg.adj_wf
    (fun p hp => hg.nbr_wf p.1 p.2 (Dict.get?_of_mem_items hg.adj_wf hp))

theorem mem_edges_imp {g : Graph} (hg : g.WF) {u v : Int} (h : (u, v) ∈ g.edges) : v ∈ g.nbrs u := by
  obtain ⟨e, he, he'⟩ := List.mem_map.1 h
  have := edgeAttrs_of_mem_edgesData hg he
  simp only [Prod.mk.injEq] at he'
  rw [he'.1, he'.2] at this
  rw [mem_nbrs_iff, this]; rfl

theorem mem_edges_of_nbrs {g : Graph} (hg : g.WF) {u v : Int} (h : v ∈ g.nbrs u) :
    (u, v) ∈ g.edges ∨ (v, u) ∈ g.edges := by
  rw [mem_nbrs_iff] at h
  obtain ⟨a, ha⟩ := Option.isSome_iff_exists.1 h
  rcases mem_edgesData_of_edgeAttrs hg ha with h | h
  · exact Or.inl (List.mem_map.2 ⟨_, h, rfl⟩)
  · exact Or.inr (List.mem_map.2 ⟨_, h, rfl⟩)

theorem edges_antisymm {g : Graph} (hg : g.WF) {u v : Int} (h : (u, v) ∈ g.edges) (hne : u ≠ v) :
    (v, u) ∉ g.edges := by
  intro h'
  obtain ⟨e, he, he'⟩ := List.mem_map.1 h
  obtain ⟨e₂, he₂, he₂'⟩ := List.mem_map.1 h'
  obtain ⟨u₁, v₁, a⟩ := e
  obtain ⟨u₂, v₂, b⟩ := e₂
  simp only [Prod.mk.injEq] at he' he₂'
  obtain ⟨rfl, rfl⟩ := he'
  obtain ⟨rfl, rfl⟩ := he₂'
  exact edgesDataAux_antisymm _ _ hg.adj_wf he hne he₂

/-- handshake: twice the number of bonds = number of adjacency entries + number of self-loops -/
theorem two_mul_length_edges {g : Graph} (hg : g.WF) :
    2 * g.edges.length = g.dirPairs.length + g.loopNodes.length := by
  have hP := nodup_edges hg
  -- the reversed non-loop bonds
  let S := (g.edges.filter (fun p => decide (p.1 ≠ p.2))).map Prod.swap
  have hS : S.Nodup := (hP.filter _).map (fun a b e => by simpa using congrArg Prod.swap e)
  have hperm : (g.edges ++ S).Perm g.dirPairs := by
    refine (List.perm_ext_iff_of_nodup ?_ (nodup_dirPairs hg)).2 ?_
    · rw [List.nodup_append]
      refine ⟨hP, hS, ?_⟩
      intro x hx y hy hxy
      subst hxy
      obtain ⟨q, hq, rfl⟩ := List.mem_map.1 hy
      rw [List.mem_filter] at hq
      exact edges_antisymm hg hq.1 (by simpa using hq.2) (show (q.2, q.1) ∈ g.edges from hx)
    · rintro ⟨u, v⟩
      rw [mem_dirPairs hg, List.mem_append]
      constructor
      · rintro (h | h)
        · exact mem_edges_imp hg h
        · obtain ⟨q, hq, hq'⟩ := List.mem_map.1 h
          rw [List.mem_filter] at hq
          obtain ⟨q1, q2⟩ := q
          simp only [Prod.swap, Prod.mk.injEq] at hq'
          obtain ⟨rfl, rfl⟩ := hq'
          exact hg.mem_nbrs_symm (mem_edges_imp hg hq.1)
      · intro h
        rcases mem_edges_of_nbrs hg h with h' | h'
        · exact Or.inl h'
        · by_cases huv : u = v
          · subst huv; exact Or.inl h'
          · right
            exact List.mem_map.2 ⟨(v, u), List.mem_filter.2 ⟨h', by simpa using fun e => huv e.symm⟩, rfl⟩
  have hloops : (g.edges.filter (fun p => decide (p.1 = p.2))).Perm (g.loopNodes.map (fun u => (u, u))) := by
    refine (List.perm_ext_iff_of_nodup (hP.filter _) ?_).2 ?_
    · exact (hg.nodup_nodeList.filter _).map (fun a b e => by simpa using e)
    · rintro ⟨u, v⟩
      simp only [List.mem_filter, decide_eq_true_eq, List.mem_map, loopNodes, Prod.mk.injEq]
      constructor
      · rintro ⟨h, rfl⟩
        have := mem_edges_imp hg h
        exact ⟨u, ⟨hg.nbr_mem u u this, this⟩, rfl, rfl⟩
      · rintro ⟨w, ⟨_, hw⟩, rfl, rfl⟩
        rcases mem_edges_of_nbrs hg hw with h | h <;> exact ⟨h, rfl⟩
  have h1 := hperm.length_eq
  have h2 := hloops.length_eq
  simp only [List.length_append, List.length_map, S] at h1 h2
  have h3 : (g.edges.filter (fun p => decide (p.1 = p.2))).length
      + (g.edges.filter (fun p => decide (p.1 ≠ p.2))).length = g.edges.length := by
    have := List.length_eq_length_filter_add (l := g.edges) (fun p => decide (p.1 = p.2))
    rw [this]
    congr 2
    apply List.filter_congr
    intro x _; simp
  omega

theorem numberOfEdges_eq (g : Graph) : g.numberOfEdges = (g.edges.length : Int) := by
  simp [numberOfEdges, edges]

/-- a relabelling preserves the number of bonds -/
theorem IsRelabel.numberOfEdges_eq {π : Int → Int} {g h : Graph} (r : IsRelabel π g h) (hg : g.WF) (hh : h.WF) :
    h.numberOfEdges = g.numberOfEdges := by
  have hd : h.dirPairs.length = g.dirPairs.length := by
    rw [length_dirPairs, length_dirPairs]
    rw [(r.nodes.map (fun u => (h.nbrs u).length)).sum_eq, List.map_map]
    congr 1
    apply List.map_congr_left
    intro n hn
    simp only [Function.comp]
    rw [(r.nbrs n hn).length_eq, List.length_map]
  have hl : h.loopNodes.length = g.loopNodes.length := by
    unfold loopNodes
    rw [← List.countP_eq_length_filter, ← List.countP_eq_length_filter, r.nodes.countP_eq, List.countP_map]
    apply List.countP_congr
    intro n hn
    simp only [Function.comp, decide_eq_true_eq]
    rw [(r.nbrs n hn).mem_iff, List.mem_map]
    constructor
    · rintro ⟨v, hv, e⟩
      rwa [r.inj v (hg.nbr_mem n v hv) n hn e] at hv
    · intro h'; exact ⟨n, h', rfl⟩
  have h1 := two_mul_length_edges hg
  have h2 := two_mul_length_edges hh
  rw [Graph.numberOfEdges_eq, Graph.numberOfEdges_eq]
  omega

theorem IsRelabel.numberOfNodes_eq {π : Int → Int} {g h : Graph} (r : IsRelabel π g h) :
    h.numberOfNodes = g.numberOfNodes := by
  rw [Graph.numberOfNodes_eq, Graph.numberOfNodes_eq, r.nodes.length_eq, List.length_map]

theorem numberOfEdges_relabelCopy {g : Graph} (hg : g.WF) (mapping : Dict Int Int)
    (inj : ∀ a ∈ g.nodeList, ∀ b ∈ g.nodeList, relabelFun mapping a = relabelFun mapping b → a = b) :
    (g.relabelCopy mapping).numberOfEdges = g.numberOfEdges :=
  (isRelabel_relabelCopy hg mapping inj).numberOfEdges_eq hg (WF_relabelCopy hg mapping inj)

theorem numberOfEdges_copy {g : Graph} (hg : g.WF) : g.copy.numberOfEdges = g.numberOfEdges :=
  (same_copy hg).numberOfEdges_eq hg (WF_copy hg)

end Graph

/-! ### convenience corollaries for `add_nodes_from` / `add_edges_from` -/

namespace Graph

theorem WF_addNodesFrom {g : Graph} (hg : g.WF) (ns : List Int) : (g.addNodesFrom ns).WF := by
  rw [addNodesFrom_eq]
  exact WF_addNodesFromData hg _ (fun p hp => by
    obtain ⟨n, _, rfl⟩ := List.mem_map.1 hp; exact Dict.WF_empty)

theorem mem_nodeList_addNodesFrom (g : Graph) (ns : List Int) (x : Int) :
    x ∈ (g.addNodesFrom ns).nodeList ↔ x ∈ g.nodeList ∨ x ∈ ns := by
  rw [addNodesFrom_eq, mem_nodeList_addNodesFromData]; simp [List.map_map, Function.comp_def]

theorem edgeAttrs_addNodesFrom {g : Graph} (hg : g.WF) (ns : List Int) (x y : Int) :
    (g.addNodesFrom ns).edgeAttrs x y = g.edgeAttrs x y := by
  rw [addNodesFrom_eq]
  exact edgeAttrs_addNodesFromData hg _ (fun p hp => by
    obtain ⟨n, _, rfl⟩ := List.mem_map.1 hp; exact Dict.WF_empty) x y

/-- `add_nodes_from` of fresh distinct labels appends them with empty attribute dicts -/
theorem addNodesFrom_fresh {g : Graph} (hg : g.WF) (ns : List Int) (hn : (g.nodeList ++ ns).Nodup) :
    (g.addNodesFrom ns).node.items = g.node.items ++ ns.map (fun n => (n, Dict.empty)) ∧
    (g.addNodesFrom ns).adj.items = g.adj.items ++ ns.map (fun n => (n, Dict.empty)) := by
  rw [addNodesFrom_eq]
  have := addNodesFromData_fresh hg (ns.map (fun n => (n, (Dict.empty : Attrs)))) (fun p hp => by
    obtain ⟨n, _, rfl⟩ := List.mem_map.1 hp; exact Dict.WF_empty)
    (by simpa [List.map_map, Function.comp_def] using hn)
  simpa [List.map_map, Function.comp_def] using this

theorem nodeList_addNodesFrom_fresh {g : Graph} (hg : g.WF) (ns : List Int) (hn : (g.nodeList ++ ns).Nodup) :
    (g.addNodesFrom ns).nodeList = g.nodeList ++ ns := by
  unfold nodeList Dict.keys
  rw [(addNodesFrom_fresh hg ns hn).1]
  simp [List.map_map, Function.comp_def]

theorem WF_addEdgesFrom {g : Graph} (hg : g.WF) (es : List (Int × Int)) : (g.addEdgesFrom es).WF := by
  rw [addEdgesFrom_eq]; exact WF_addEdgesFromData hg _

theorem edgeAccum_isSome (es : List (Int × Int × Attrs)) (x y : Int) (o : Option Attrs) :
    (edgeAccum es x y o).isSome = true ↔ o.isSome = true ∨ ∃ e ∈ es, EMatch e x y := by
  induction es generalizing o with
  | nil => simp [edgeAccum]
  | cons e es ih =>
    have : edgeAccum (e :: es) x y o =
        edgeAccum es x y (if EMatch e x y then some ((o.getD Dict.empty).update e.2.2) else o) := rfl
    rw [this, ih]
    by_cases hm : EMatch e x y
    · simp [hm]
    · simp [hm]

/-- adjacency after `add_edges_from` -/
theorem mem_nbrs_addEdgesFromData {g : Graph} (hg : g.WF) (es : List (Int × Int × Attrs)) (x y : Int) :
    y ∈ (g.addEdgesFromData es).nbrs x ↔ y ∈ g.nbrs x ∨ ∃ e ∈ es, EMatch e x y := by
  rw [mem_nbrs_iff, mem_nbrs_iff, edgeAttrs_addEdgesFromData hg, edgeAccum_isSome]

theorem mem_nbrs_addEdgesFrom {g : Graph} (hg : g.WF) (es : List (Int × Int)) (x y : Int) :
    y ∈ (g.addEdgesFrom es).nbrs x ↔ y ∈ g.nbrs x ∨ (x, y) ∈ es ∨ (y, x) ∈ es := by
  rw [addEdgesFrom_eq, mem_nbrs_addEdgesFromData hg]
  apply or_congr_right
  constructor
  · rintro ⟨e, he, hm⟩
    obtain ⟨p, hp, rfl⟩ := List.mem_map.1 he
    rcases hm with ⟨rfl, rfl⟩ | ⟨rfl, rfl⟩
    · exact Or.inl hp
    · exact Or.inr hp
  · rintro (h | h)
    · exact ⟨_, List.mem_map.2 ⟨_, h, rfl⟩, Or.inl ⟨rfl, rfl⟩⟩
    · exact ⟨_, List.mem_map.2 ⟨_, h, rfl⟩, Or.inr ⟨rfl, rfl⟩⟩

theorem mem_nodeList_addEdgesFrom (g : Graph) (es : List (Int × Int)) (x : Int) :
    x ∈ (g.addEdgesFrom es).nodeList ↔ x ∈ g.nodeList ∨ ∃ e ∈ es, x = e.1 ∨ x = e.2 := by
  rw [addEdgesFrom_eq, mem_nodeList_addEdgesFromData]
  simp

theorem node_addEdgesFrom_of_mem {g : Graph} (es : List (Int × Int))
    (h : ∀ e ∈ es, e.1 ∈ g.nodeList ∧ e.2 ∈ g.nodeList) : (g.addEdgesFrom es).node = g.node := by
  rw [addEdgesFrom_eq]
  apply node_addEdgesFromData_of_mem
  intro e he
  obtain ⟨p, hp, rfl⟩ := List.mem_map.1 he
  exact h p hp

/-- a fresh bond gets exactly the given (well-formed) data -/
theorem newEdgeData_of_none {g : Graph} {u v : Int} (h : g.edgeAttrs u v = none) {a : Attrs} (ha : a.WF) :
    g.newEdgeData u v a = a := by
  unfold newEdgeData; rw [h]; exact Dict.empty_update ha

/-- relabelling by the identity on the nodes (e.g. `convert_node_labels_to_integers` of a graph whose
nodes already are `0..n-1` in order) gives the same labelled graph -/
theorem same_convertNodeLabelsToIntegers_of_range {g : Graph} (hg : g.WF)
    (hr : g.nodeList = range g.numberOfNodes) :
    Same g g.convertNodeLabelsToIntegers ∧ g.convertNodeLabelsToIntegers.nodeList = g.nodeList ∧
    ∀ n, g.convertNodeLabelsToIntegers.node.get? n = g.node.get? n := by
  obtain ⟨h1, h2, h3, h4⟩ := convertNodeLabelsToIntegers_spec hg
  have hid : ∀ n ∈ g.nodeList, Int.ofNat (g.nodeList.idxOf n) = n := by
    intro n hn
    have hlt := List.idxOf_lt_length_of_mem hn
    have e := List.getElem_idxOf hlt
    have key : ∀ (l : List Int), l = range g.numberOfNodes → ∀ j (h : j < l.length), l[j] = Int.ofNat j := by
      rintro _ rfl j h; simp [range]
    exact (key _ hr _ hlt).symm.trans e
  refine ⟨h3.congr hg hid, by rw [h2, ← hr], fun n => ?_⟩
  by_cases hn : n ∈ g.nodeList
  · rw [← h4 n hn, hid n hn]
  · rw [(Dict.get?_eq_none_iff _ _).2 hn, Dict.get?_eq_none_iff]
    show n ∉ g.convertNodeLabelsToIntegers.nodeList
    rw [h2, ← hr]; exact hn

end Graph

end Py
