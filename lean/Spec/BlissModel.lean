/-
Spec.BlissModel — the assumed bliss contract `BlissLawful` (Spec/Bliss.lean) is satisfiable: there is an
environment whose `canonical_permutation` / `permute_vertices` obey it. A contradictory assumption would make
every theorem that takes it as a hypothesis vacuous; this file rules that out.

The witness is the textbook canonical form, built with classical choice: every colour-isomorphism class of
valid coloured graphs gets a representative, every valid coloured graph gets an isomorphism `lam` onto the
representative of its class, and permuting moves the vertex at index `i` to position `lam i`.
-/
import Spec.Bliss
import Mathlib.Data.Finset.Card
set_option autoImplicit false

namespace Py
namespace BlissModel
open IGraph

/-! ## colour-isomorphism is an equivalence relation -/

theorem colourIso_refl (ig : IGraph) (c : List Val) : ColourIso id ig c ig c :=
  ⟨rfl, fun _ h => h, fun _ _ _ _ e => e, fun _ _ => rfl, fun _ _ _ _ => Iff.rfl⟩

theorem colourIso_trans {σ τ : Nat → Nat} {ig₁ ig₂ ig₃ : IGraph} {c₁ c₂ c₃ : List Val}
    (h₁ : ColourIso σ ig₁ c₁ ig₂ c₂) (h₂ : ColourIso τ ig₂ c₂ ig₃ c₃) : ColourIso (τ ∘ σ) ig₁ c₁ ig₃ c₃ where
  card := h₂.card.trans h₁.card
  lt := fun i hi => h₂.lt _ (h₁.lt i hi)
  inj := fun i hi j hj e => h₁.inj i hi j hj (h₂.inj _ (h₁.lt i hi) _ (h₁.lt j hj) e)
  colour := fun i hi => (h₂.colour _ (h₁.lt i hi)).trans (h₁.colour i hi)
  edge := fun i hi j hj => (h₂.edge _ (h₁.lt i hi) _ (h₁.lt j hj)).trans (h₁.edge i hi j hj)

/-- pigeonhole: an injective self-map of `{0, …, n-1}` is onto -/
theorem surj_of_inj {n : Nat} {σ : Nat → Nat} (hlt : ∀ i, i < n → σ i < n)
    (hinj : ∀ i, i < n → ∀ j, j < n → σ i = σ j → i = j) : ∀ k, k < n → ∃ i, i < n ∧ σ i = k := by
  have himg : (Finset.range n).image σ = Finset.range n := by
    apply Finset.eq_of_subset_of_card_le
    · intro x hx
      obtain ⟨i, hi, rfl⟩ := Finset.mem_image.1 hx
      exact Finset.mem_range.2 (hlt i (Finset.mem_range.1 hi))
    · rw [Finset.card_image_of_injOn]
      intro i hi j hj e
      exact hinj i (Finset.mem_range.1 hi) j (Finset.mem_range.1 hj) e
  intro k hk
  have : k ∈ (Finset.range n).image σ := by rw [himg]; exact Finset.mem_range.2 hk
  obtain ⟨i, hi, e⟩ := Finset.mem_image.1 this
  exact ⟨i, Finset.mem_range.1 hi, e⟩

/-- inverse of `σ` on `{0, …, n-1}` -/
noncomputable def invOn (n : Nat) (σ : Nat → Nat) (k : Nat) : Nat :=
  if h : ∃ i, i < n ∧ σ i = k then Classical.choose h else 0

theorem invOn_spec {n : Nat} {σ : Nat → Nat} (hsurj : ∀ k, k < n → ∃ i, i < n ∧ σ i = k) {k : Nat} (hk : k < n) :
    invOn n σ k < n ∧ σ (invOn n σ k) = k := by
  have h := hsurj k hk
  unfold invOn; rw [dif_pos h]; exact Classical.choose_spec h

theorem invOn_left {n : Nat} {σ : Nat → Nat} (hlt : ∀ i, i < n → σ i < n)
    (hinj : ∀ i, i < n → ∀ j, j < n → σ i = σ j → i = j) {i : Nat} (hi : i < n) : invOn n σ (σ i) = i := by
  have := invOn_spec (surj_of_inj hlt hinj) (hlt i hi)
  exact hinj _ this.1 _ hi this.2

theorem colourIso_symm {σ : Nat → Nat} {ig₁ ig₂ : IGraph} {c₁ c₂ : List Val} (h : ColourIso σ ig₁ c₁ ig₂ c₂) :
    ColourIso (invOn ig₁.names.length σ) ig₂ c₂ ig₁ c₁ := by
  have hlt : ∀ i, i < ig₁.names.length → σ i < ig₁.names.length := fun i hi => h.card ▸ h.lt i hi
  have hs := surj_of_inj hlt h.inj
  have spec : ∀ k, k < ig₂.names.length →
      invOn ig₁.names.length σ k < ig₁.names.length ∧ σ (invOn ig₁.names.length σ k) = k :=
    fun k hk => invOn_spec hs (h.card ▸ hk)
  refine ⟨h.card.symm, fun k hk => (spec k hk).1, ?_, ?_, ?_⟩
  · intro k hk l hl e
    rw [← (spec k hk).2, ← (spec l hl).2, e]
  · intro k hk
    have := h.colour _ (spec k hk).1
    rw [(spec k hk).2] at this
    exact this.symm
  · intro k hk l hl
    have := h.edge _ (spec k hk).1 _ (spec l hl).1
    rw [(spec k hk).2, (spec l hl).2] at this
    exact this.symm

/-! ## representatives -/

/-- a coloured graph -/
abbrev CG := IGraph × List Val

instance : Nonempty CG := ⟨(⟨[], [], []⟩, [])⟩

def Rel (X Y : CG) : Prop := ∃ σ, ColourIso σ X.1 X.2 Y.1 Y.2

theorem Rel.refl (X : CG) : Rel X X := ⟨id, colourIso_refl _ _⟩
theorem Rel.symm {X Y : CG} : Rel X Y → Rel Y X := fun ⟨_, h⟩ => ⟨_, colourIso_symm h⟩
theorem Rel.trans {X Y Z : CG} : Rel X Y → Rel Y Z → Rel X Z := fun ⟨_, h₁⟩ ⟨_, h₂⟩ => ⟨_, colourIso_trans h₁ h₂⟩

/-- the chosen representative of the class of `X` -/
noncomputable def rep (X : CG) : CG := Classical.epsilon (fun Y : CG => Y.1.Valid Y.2 ∧ Rel X Y)

theorem rep_spec {X : CG} (hv : X.1.Valid X.2) : (rep X).1.Valid (rep X).2 ∧ Rel X (rep X) :=
  Classical.epsilon_spec (p := fun Y : CG => Y.1.Valid Y.2 ∧ Rel X Y) ⟨X, hv, Rel.refl X⟩

theorem rep_eq {X X' : CG} (h : Rel X X') : rep X = rep X' := by
  unfold rep
  congr 1
  funext Y
  exact propext ⟨fun ⟨v, r⟩ => ⟨v, h.symm.trans r⟩, fun ⟨v, r⟩ => ⟨v, h.trans r⟩⟩

open Classical in
/-- the chosen isomorphism from `X` onto its representative: the canonical labelling -/
noncomputable def lam (X : CG) : Nat → Nat := if h : Rel X (rep X) then Classical.choose h else id

theorem lam_spec {X : CG} (hv : X.1.Valid X.2) : ColourIso (lam X) X.1 X.2 (rep X).1 (rep X).2 := by
  have h := (rep_spec hv).2
  unfold lam; rw [dif_pos h]; exact Classical.choose_spec h

/-! ## the environment -/

/-- `canonical_permutation` lists, for every new position, the old vertex index (new → old);
`permute_vertices p` reads it that way. Only the vertex names matter for `BlissLawful`. -/
noncomputable def env : DepEnv where
  setOrder := fun l => l
  canonicalPermutation := fun ig c =>
    (List.range ig.names.length).map (fun k => ((invOn ig.names.length (lam (ig, c)) k : Nat) : Int))
  permuteVertices := fun ig p => ⟨p.map (fun i => (ig.names[i.toNat]?).getD 0), ig.attrs, ig.edges⟩
  parseFloat := fun s => .ok ⟨s⟩
  fmt6 := fun _ => []
  shuffle := fun _ _ l => l
  layout := fun _ => ⟨[]⟩
  nowStamp := []
  version := []

theorem canonForm_names (ig : IGraph) (c : List Val) :
    (env.canonForm ig c).names =
      (List.range ig.names.length).map (fun k => (ig.names[invOn ig.names.length (lam (ig, c)) k]?).getD 0) := by
  simp [DepEnv.canonForm, env, List.map_map, Function.comp_def]

section valid
variable {ig : IGraph} {c : List Val} (hv : ig.Valid c)
include hv

theorem lam_lt : ∀ i, i < ig.names.length → lam (ig, c) i < ig.names.length :=
  fun i hi => (lam_spec (X := (ig, c)) hv).card ▸ (lam_spec (X := (ig, c)) hv).lt i hi

theorem lam_inj : ∀ i, i < ig.names.length → ∀ j, j < ig.names.length → lam (ig, c) i = lam (ig, c) j → i = j :=
  (lam_spec (X := (ig, c)) hv).inj

theorem inv_spec {k : Nat} (hk : k < ig.names.length) :
    invOn ig.names.length (lam (ig, c)) k < ig.names.length ∧
      lam (ig, c) (invOn ig.names.length (lam (ig, c)) k) = k :=
  invOn_spec (surj_of_inj (lam_lt hv) (lam_inj hv)) hk

/-- the vertex at index `i` is found at position `lam i` of the permuted graph -/
theorem canonForm_getElem? {i : Nat} (hi : i < ig.names.length) :
    (env.canonForm ig c).names[lam (ig, c) i]? = some ig.names[i] := by
  rw [canonForm_names, List.getElem?_map, List.getElem?_range (lam_lt hv i hi), Option.map_some,
    invOn_left (lam_lt hv) (lam_inj hv) hi, List.getElem?_eq_getElem hi, Option.getD_some]

theorem canonForm_nodup : (env.canonForm ig c).names.Nodup := by
  rw [canonForm_names]
  apply List.Nodup.map_on _ List.nodup_range
  intro k hk l hl e
  have hk' := List.mem_range.1 hk
  have hl' := List.mem_range.1 hl
  have sk := inv_spec hv hk'
  have sl := inv_spec hv hl'
  rw [List.getElem?_eq_getElem sk.1, List.getElem?_eq_getElem sl.1, Option.getD_some, Option.getD_some] at e
  have := (hv.names_nodup.getElem_inj_iff).1 e
  rw [← sk.2, ← sl.2, this]

theorem canonForm_perm : (env.canonForm ig c).names.Perm ig.names := by
  refine (List.perm_ext_iff_of_nodup (canonForm_nodup hv) hv.names_nodup).2 (fun x => ?_)
  constructor
  · intro hx
    rw [canonForm_names, List.mem_map] at hx
    obtain ⟨k, hk, rfl⟩ := hx
    have sk := inv_spec hv (List.mem_range.1 hk)
    rw [List.getElem?_eq_getElem sk.1, Option.getD_some]
    exact List.getElem_mem _
  · intro hx
    have hi := List.idxOf_lt_length_of_mem hx
    have := canonForm_getElem? hv hi
    rw [List.getElem_idxOf] at this
    exact List.mem_of_getElem? this

theorem canonPos_eq {i : Nat} (hi : i < ig.names.length) : env.canonPos ig c i = some (lam (ig, c) i) := by
  unfold DepEnv.canonPos
  rw [List.getElem?_eq_getElem hi, Option.map_some, idxOf_of_getElem? (canonForm_nodup hv) (canonForm_getElem? hv hi)]

end valid

/-- **The bliss contract is satisfiable.** -/
theorem blissLawful_env : BlissLawful env where
  names_perm := fun _ _ hv => canonForm_perm hv
  canonical := by
    intro ig₁ c₁ ig₂ c₂ τ hv₁ hv₂ hσ hτ
    have hrel : Rel (ig₁, c₁) (ig₂, c₂) := hσ
    have iso₁ := lam_spec (X := (ig₁, c₁)) hv₁
    have iso₂ := lam_spec (X := (ig₂, c₂)) hv₂
    rw [← rep_eq hrel] at iso₂
    have hcard : ig₂.names.length = ig₁.names.length := by obtain ⟨σ, h⟩ := hσ; exact h.card
    -- `τ` commutes with the canonical labellings
    have hlam : ∀ i, i < ig₁.names.length → lam (ig₂, c₂) (τ i) = lam (ig₁, c₁) i := by
      intro i hi
      have := (hτ i hi).2
      rw [canonPos_eq hv₂ (hτ i hi).1, canonPos_eq hv₁ hi] at this
      exact Option.some.inj this
    refine ⟨hcard, fun i hi => (hτ i hi).1, ?_, ?_, ?_⟩
    · intro i hi j hj e
      exact iso₁.inj i hi j hj (by rw [← hlam i hi, ← hlam j hj, e])
    · intro i hi
      rw [← iso₂.colour _ (hτ i hi).1, hlam i hi, iso₁.colour i hi]
    · intro i hi j hj
      rw [← iso₂.edge _ (hτ i hi).1 _ (hτ j hj).1, hlam i hi, hlam j hj, iso₁.edge i hi j hj]

theorem blissLawful_satisfiable : ∃ env : DepEnv, BlissLawful env ∧ env.SetLawful :=
  ⟨env, blissLawful_env, fun _ => List.Perm.refl _⟩

end BlissModel
end Py

#print axioms Py.BlissModel.blissLawful_satisfiable
