/-
Spec.Records — the record types of the code under contract (a NamedTuple and the listener state), declared once so that the
generated modules and the baseline snapshot (vlib/baseline.py) share them: their functions then have the same types and
`Tucan.f = TucanBase.f` is a well-typed statement. The generated modules re-export them as reducible aliases under their old names.
-/
import PyModel.Ops
set_option autoImplicit false

namespace TucanTypes
open Py

/-- `class InvariantCodeDefinition(NamedTuple)` of tucan/graph_utils.py -/
structure InvariantCodeDefinition where
  key : String
  default_value : Option Val := Option.none
  deriving Repr, DecidableEq

/-- instance state of `TucanListenerImpl` (tucan/parser/parser.py, `__init__`) -/
structure TucanListenerImpl where
  _atoms : List Attrs := []
  _bonds : List (Int × Int) := []
  _node_attributes : Dict Int Attrs := Dict.empty
  deriving Repr, DecidableEq

end TucanTypes
