import Contracts.WriterExt
set_option autoImplicit false
open Py Py.Graph Contracts
open Contracts.V30Line
namespace Contracts.WriterExt
open Contracts.Writer
open Contracts.Final (IdOK InvariantCodeOK posOf)
open Contracts.FinalLabels (fuelBound)
open Contracts.Pipeline (tucan)
open Contracts.Parser (Ast treeOf denote Represents AbstractMol withCode)
open Contracts.RoundTrip (V4 graphFromTucan MolOK idKeys)

/-- **C09, graph level, with the coordinates clause.** `g`: a molecule graph with the identity facts (`IdOK`), no
self-loops, radicals `≤ 3`, attributes in the format's ranges for the writer's environment (`InRange`: finite
coordinates, integer bond types, sizes); `envw` obeys the float law. Then the writer returns a text, the reader
`graph_from_molfile_text` accepts it and returns a graph `g₂` with
* the same atoms in the same order: the nodes of `g₂` are `0 … n-1`, node `i` stands for the `i`-th node of `g`;
* the same element symbol, atomic number, isotope mass and radical (`idKeys`), the charge if it is in `-15..15`;
* **the same coordinates to six decimals**: `x_coord`, `y_coord`, `z_coord` are floats `f` with
  `f"{f:.6f}" == f"{v:.6f}"` for the coordinate `v` of `g` (default `0`);
* the same bonds: positions are adjacent in `g₂` iff the nodes are adjacent in `g`. -/
theorem C09_coords {envw : DepEnv} (hfl : FloatLawful envw) {g : Graph} (ok : IdOK g) (hl : g.Loopless)
    (hrad : ∀ i ∈ g.nodeList, ∀ r : Int, g.attr i "rad" = some (Val.int r) → r ≤ 3)
    (hr : InRange envw g) (hv : Plain envw.version) (hsP : Plain envw.nowStamp)
    (wfuel rfuel : Nat) (hf : maxLen (logicalLines envw g) / 71 + 1 ≤ wfuel)
    (hf' : (fileLines envw g).length + 1 ≤ rfuel) :
    ∃ text g₂, Tucan.molfile_writer.graph_to_molfile envw wfuel g false = .ok text ∧
      Tucan.molfile_reader.graph_from_molfile_text envw rfuel text = .ok g₂ ∧
      g₂.nodeList = range (g.nodeList.length : Int) ∧
      (∀ n ∈ g.nodeList, ∀ a, g.node.get? n = some a →
        (∀ k ∈ idKeys, g₂.attr (posOf g.nodeList n) k = a.get? k) ∧
        g₂.attr (posOf g.nodeList n) "chg" = (wChg a).map Val.int ∧
        ∀ k ∈ coordKeys, ∃ f : Flt, g₂.attr (posOf g.nodeList n) k = some (Val.flt f) ∧
          envw.fmt6 (Val.flt f) = envw.fmt6 (coord a k)) ∧
      (∀ u ∈ g.nodeList, ∀ v ∈ g.nodeList,
        posOf g.nodeList v ∈ g₂.nbrs (posOf g.nodeList u) ↔ v ∈ g.nbrs u) := by
  have hn := nodeRT_of_inRange hfl ok hr
  have hpl := plain_logicalLines' hn hr.coords hr.bond
  obtain ⟨g₂, w, r, wg₂, _, ng, hnode, iso⟩ := writeRead_core ok hl hrad hn hr.bond hr.na hr.nb
    (splitlines_written hv hsP hpl).1 wfuel rfuel hf hf'
  refine ⟨_, g₂, w, r, ng, ?_, ?_⟩
  · intro n hn' a ha
    obtain ⟨a', ha', h2⟩ := hnode n hn'
    obtain rfl : a' = a := Option.some.inj (ha'.symm.trans ha)
    have hattr : ∀ k, g.attr n k = a'.get? k := fun k => by rw [Graph.attr_eq, ha]; rfl
    obtain ⟨cx, cy, cz, cc⟩ := nodeReadBack_coord envw a'
    have hp : (n, a') ∈ g.nodesData := by
      have := Dict.mem_items_of_get? ha
      exact this
    refine ⟨fun k hk => ?_, ?_, ?_⟩
    · rw [← hattr, ← (iso k hk).attr n hn']
    · rw [Contracts.Final.attr_withCode_ne h2 _ (by decide), cc]
    · intro k hk
      have hfin := hr.coords _ hp k hk
      simp only [coordKeys, List.mem_cons, List.not_mem_nil, or_false] at hk
      rcases hk with rfl | rfl | rfl
      · exact ⟨_, by rw [Contracts.Final.attr_withCode_ne h2 _ (by decide), cx], fltOf_sixDecimals hfl hfin⟩
      · exact ⟨_, by rw [Contracts.Final.attr_withCode_ne h2 _ (by decide), cy], fltOf_sixDecimals hfl hfin⟩
      · exact ⟨_, by rw [Contracts.Final.attr_withCode_ne h2 _ (by decide), cz], fltOf_sixDecimals hfl hfin⟩
  · intro u hu v hv'
    have r1 := iso "mass" (by decide)
    rw [(r1.nbrs u hu).mem_iff, List.mem_map]
    constructor
    · rintro ⟨w', hw', e⟩
      have := r1.inj w' (ok.wf.nbr_mem u w' hw') v hv' e
      rw [← this]; exact hw'
    · intro h; exact ⟨v, h, rfl⟩

end Contracts.WriterExt
