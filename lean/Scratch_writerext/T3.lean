import Contracts.WriterExt
set_option autoImplicit false
open Py Py.Graph Contracts
open Contracts.V30Line
namespace Contracts.WriterExt
open Contracts.Writer
open Contracts.Final (IdOK InvariantCodeOK posOf)
open Contracts.FinalLabels (fuelBound)
open Contracts.Pipeline (tucan)
open Contracts.Parser (Ast treeOf denote Represents AbstractMol withCode)
open Contracts.RoundTrip (V4 graphFromTucan MolOK idKeys)

/-! ## 3. graph → molfile → graph: what the graph read back looks like -/

/-- **writer, then `graph_from_molfile_text`.** The text is the physical lines joined by newlines; the reader
returns a graph `g₂` whose nodes are `0 … n-1`; node number `i` carries the attributes read back from the line of
the `i`-th node of `g` (plus the invariant code); identity attributes and adjacency are carried. -/
theorem writeRead_core {envw : DepEnv} {g : Graph} (ok : IdOK g) (hl : g.Loopless)
    (hrad : ∀ i ∈ g.nodeList, ∀ r : Int, g.attr i "rad" = some (Val.int r) → r ≤ 3)
    (hn : ∀ p ∈ g.nodesData, NodeRT envw p) (he : ∀ e ∈ g.edgesData, EdgeRT e)
    (hna : g.nodesData.length < 10 ^ 4300) (hnb : g.edgesData.length < 10 ^ 4300)
    (hsplit : splitlines (join py!"\n" (fileLines envw g)) = fileLines envw g)
    (wfuel rfuel : Nat) (hf : maxLen (logicalLines envw g) / 71 + 1 ≤ wfuel)
    (hf' : (fileLines envw g).length + 1 ≤ rfuel) :
    ∃ g₂, Tucan.molfile_writer.graph_to_molfile envw wfuel g false = .ok (join py!"\n" (fileLines envw g)) ∧
      Tucan.molfile_reader.graph_from_molfile_text envw rfuel (join py!"\n" (fileLines envw g)) = .ok g₂ ∧
      g₂.WF ∧ InvariantCodeOK g₂ ∧ g₂.nodeList = range (g.nodeList.length : Int) ∧
      (∀ n ∈ g.nodeList, ∃ a, g.node.get? n = some a ∧
        g₂.node.get? (posOf g.nodeList n) = some (withCode (nodeReadBack envw a))) ∧
      (∀ k ∈ idKeys, IsIsoOn k (posOf g.nodeList) g g₂) := by
  obtain ⟨g₂, R, e, wg₂, cg₂, iso⟩ := Contracts.Final.writeRead_iso envw ok hrad
  have hm := Contracts.Final.back_molOK envw ok.wf
  obtain ⟨g₂', R', e', _, ng, ag, _⟩ :=
    Reader.graph_from_molecule_general envw _ _ hm.wf hm.attrs_wf hm.z hm.ends
  obtain ⟨rfl, rfl⟩ := Prod.mk.inj (Except.ok.inj (e'.symm.trans e))
  rw [Contracts.Final.atomsBack_keys] at ng ag
  refine ⟨g₂', graph_to_molfile_ok envw wfuel g (Contracts.Final.nodeOk_of_idOK ok) hf, ?_, wg₂, cg₂, ng, ?_, iso⟩
  · rw [Reader.graph_from_molfile_text_eq]
    unfold Reader.readSpec
    rw [hsplit]
    have h3 : (fileLines envw g)[3]? = some py!"  0  0  0     0  0            999 V3000" := rfl
    have hw : Reader.lastWord py!"  0  0  0     0  0            999 V3000" = py!"V3000" := by decide
    simp only [h3, hw, if_true]
    rw [C09_file_roundtrip envw g rfuel (GraphOk.of_WF ok.wf) hn he hna hnb hf']
    simp only [ok_bind]
    rw [Reader.molGraph_ok envw _ (Contracts.Final.not_neg_atomsBack envw g)
      (Contracts.Final.not_self_bondsBack ok.wf hl), e]
    rfl
  · intro n hn'
    cases ha : g.node.get? n with
    | none => exact absurd hn' ((Dict.get?_eq_none_iff _ _).1 ha)
    | some a =>
      refine ⟨a, rfl, ag n _ ?_⟩
      rw [Contracts.Final.atomsBack_get?, ha]; rfl

theorem nodeReadBack_coord (env : DepEnv) (a : Attrs) :
    (nodeReadBack env a).get? "x_coord" = some (Val.flt (fltOf env (coord a "x_coord"))) ∧
    (nodeReadBack env a).get? "y_coord" = some (Val.flt (fltOf env (coord a "y_coord"))) ∧
    (nodeReadBack env a).get? "z_coord" = some (Val.flt (fltOf env (coord a "z_coord"))) ∧
    (nodeReadBack env a).get? "chg" = (wChg a).map Val.int := by
  unfold nodeReadBack readBack Contracts.V3000.mkAtomAttrs
  cases wChg a <;> cases wMass a <;> cases wRad a <;>
    simp [Dict.get?, Contracts.V3000.optAttr, List.lookup]

theorem fltOf_sixDecimals {env : DepEnv} (hfl : FloatLawful env) {v : Val} (hv : Finite env v) :
    env.fmt6 (Val.flt (fltOf env v)) = env.fmt6 v := by
  obtain ⟨f, hf, e⟩ := hfl.reparse v hv
  unfold fltOf; rw [hf]; exact e

end Contracts.WriterExt
