import Contracts.WriterExt
set_option autoImplicit false
open Py Py.Graph Contracts
namespace Contracts.WriterExt
open Contracts.Parser

theorem graph_from_molecule_noBondData (env : DepEnv) (A : Dict Int Attrs) (B : Dict (Int × Int) Attrs)
    (hB : ∀ p ∈ B.items, p.2 = Dict.empty) {g : Graph} {R : Dict Int Attrs}
    (e : Tucan.graph_utils.graph_from_molecule env A B = .ok (g, R)) :
    ∀ x y d, g.edgeAttrs x y = some d → ∀ k, d.get? k = none := by
  sorry

/-- **the TUCAN parser puts no data on bonds**: every bond of the graph returned for a well-formed syntax tree
carries an attribute dict without any key (the parser calls `graph_from_molecule` with `{bond: {}}`) -/
theorem parsed_noBondData (env : DepEnv) (a : Ast) (h : a.Wf) {g : Graph}
    (hg : Tucan.parser.graph_from_tree env (treeOf a) = .ok g) :
    ∀ x y d, g.edgeAttrs x y = some d → ∀ k, d.get? k = none := by
  have hgt : Tucan.parser.graph_from_tree env (treeOf a) = (walkSpec a >>= Tucan.parser.TucanListenerImpl.to_graph env) := by
    unfold Tucan.parser.graph_from_tree
    rw [walk_treeOf env a (wf_syms a h) h]
  rw [hgt] at hg
  by_cases hsd : a.SelfBond ∨ a.DupAttr
  · rw [walkSpec_error a hsd] at hg; cases hg
  · rw [not_or] at hsd
    obtain ⟨D, hw, hinv⟩ := walkSpec_ok a hsd.1 hsd.2
    have hD0 : ∀ i ∈ D.keys, 0 ≤ i := by
      intro i hi
      rw [hinv.keys, settings0_eq] at hi
      obtain ⟨s0, hs0, rfl⟩ := hi
      obtain ⟨s, hs, rfl⟩ := List.mem_map.mp hs0
      have := settings_pos a h s hs
      simp only [shift]; omega
    rw [hw] at hg
    simp only [ok_bind] at hg
    rw [to_graph_eq env (expand a.formula) (bondsOf a.tuples) D hinv.wf hD0] at hg
    split at hg
    · cases hm : Tucan.graph_utils.graph_from_molecule env (tab (expand a.formula).length (joined (expand a.formula) D))
          (Dict.ofPairs ((bondsOf a.tuples).map (fun b => (b, (Dict.empty : Attrs))))) with
      | error err => rw [hm] at hg; cases hg
      | ok r =>
        rw [hm] at hg
        obtain ⟨g', R⟩ := r
        obtain rfl : g' = g := Except.ok.inj hg
        refine graph_from_molecule_noBondData env _ _ ?_ hm
        intro p hp
        rw [Dict.ofPairs_eq_updatePairs] at hp
        rcases mem_items_updatePairs _ _ _ hp with h | h
        · simp [Dict.empty] at h
        · obtain ⟨b, _, rfl⟩ := List.mem_map.mp h; rfl
    · cases hg

end Contracts.WriterExt
