import Contracts.WriterExt
set_option autoImplicit false
open Py Py.Graph Contracts
open Contracts.V30Line
namespace Contracts.WriterExt
open Contracts.Writer
open Contracts.Final (IdOK InvariantCodeOK posOf)
open Contracts.FinalLabels (fuelBound)
open Contracts.Pipeline (tucan)
open Contracts.Parser (Ast treeOf denote Represents AbstractMol withCode)
open Contracts.RoundTrip (V4 graphFromTucan MolOK idKeys)

section parser
open Contracts.Parser

/-- the graph the parser returns for a well-formed syntax tree has no coordinates (its node attributes are among
`element_symbol, atomic_number, partition, mass, rad, invariant_code`) and no bond data -/
theorem parsed_bare (env : DepEnv) (a : Ast) (h : a.Wf) {g : Graph}
    (hg : Tucan.parser.graph_from_tree env (treeOf a) = .ok g) :
    (∃ n : Nat, g.nodeList = range (n : Int)) ∧ (∀ i, ∀ k ∈ coordKeys, g.attr i k = none) ∧
      (∀ x y d, g.edgeAttrs x y = some d → d.get? "bond_type" = none) := by
  have hok := graph_from_tree_ok env a h
  cases ea : denote a with
  | error err => rw [ea] at hok; rw [hg] at hok; cases hok
  | ok mol =>
    rw [ea] at hok
    obtain ⟨g', hg', R⟩ := hok
    obtain rfl : g' = g := Except.ok.inj (hg'.symm.trans hg)
    refine ⟨⟨_, R.nodes⟩, ?_, fun x y d hd => parsed_noBondData env a h hg x y d hd _⟩
    intro i k hk
    by_contra hne
    have := R.noOther i k hne
    revert hk this
    simp only [coordKeys, attrNames, List.mem_cons, List.not_mem_nil, or_false]
    rintro (rfl | rfl | rfl) <;> decide

/-- the string the pipeline emits is parsed from a well-formed syntax tree (V4) -/
theorem pipeline_output_tree (antlr : Str → Option PTree) (hV4 : V4 antlr) {env : DepEnv}
    (hs : env.SetLawful) (hb : BlissLawful env) {m : Graph} {s : Str} (hm : MolOK m) (hne : m.nodeList ≠ [])
    (hcode : InvariantCodeOK m) (fuel : Nat) (hf : fuel ≥ fuelBound m) (e : tucan env fuel m = .ok s) :
    ∃ a : Ast, a.Wf ∧ antlr s = some (treeOf a) := by
  have okm := Contracts.Final.MolOK.idOK hm hcode
  obtain ⟨c, ρ, hcan, wc, pc, ic'⟩ := RoundTrip.canonicalize_facts hs hb hm.wf hne okm.carries_code fuel
    (le_trans (Pipeline.length_le_fuelBound m) hf)
  have i' : ∀ k ∈ idKeys, IsIsoOn k ρ m c := fun k hk => ic' k (RoundTrip.idKeys_ne_partition hk)
  have okc : MolOK c := hm.of_iso wc i'
  obtain ⟨ms, σ, hser, sm, iso2⟩ := RoundTrip.serialize_molecule_sorted env hs fuel okc pc
    (by rw [RoundTrip.fuelBound_iso (i' "mass" (by decide))]; exact hf)
  have hs' : s = Layout.tucanSpec ms := by
    unfold tucan at e
    simp only [hcan, hser, ok_bind, pure_eq_ok] at e
    exact (Except.ok.inj e).symm
  subst hs'
  exact ⟨_, sm.astOf_wf, by rw [RoundTrip.tucanSpec_eq_render, hV4 _ sm.astOf_wf sm.in_grammar]⟩

end parser

/-- **C09 (string → graph → molfile → graph → string).** Hypotheses: the dependency contracts (V4 for the
recogniser, the bliss contract, set iteration, the float law for the writer's / reader's environment, version string
and time stamp without line breaks), `s` is pipeline output for a molecule `m` fit for the pipeline whose radicals are
in the format's range `1..3`, `g` is the parser's graph for `s`, and size / fuel bounds. Nothing is assumed about `g`. -/
theorem C09_string' (antlr : Str → Option PTree) (hV4 : V4 antlr) {env env₂ : DepEnv} (envp envw : DepEnv)
    (hs : env.SetLawful) (hs₂ : env₂.SetLawful) (hb : BlissLawful env)
    (hcp : env₂.canonicalPermutation = env.canonicalPermutation)
    (hpv : env₂.permuteVertices = env.permuteVertices) (hfl : FloatLawful envw)
    (hv : Plain envw.version) (hsP : Plain envw.nowStamp)
    {m g : Graph} {s : Str} (hm : MolOK m) (hne : m.nodeList ≠ []) (hcode : InvariantCodeOK m)
    (hradm : ∀ i ∈ m.nodeList, ∀ r : Int, m.attr i "rad" = some (Val.int r) → r ≤ 3)
    (fuel : Nat) (hf : fuel ≥ fuelBound m)
    (e : tucan env fuel m = .ok s) (p : graphFromTucan antlr envp s = .ok g)
    (hnb : g.edgesData.length < 10 ^ 4300)
    (wfuel rfuel : Nat) (hfw : maxLen (logicalLines envw g) / 71 + 1 ≤ wfuel)
    (hfr : (fileLines envw g).length + 1 ≤ rfuel) :
    ∃ text g₂, Tucan.molfile_writer.graph_to_molfile envw wfuel g false = .ok text ∧
      (∀ l ∈ splitlines text, l.length + 1 ≤ 80) ∧
      Tucan.molfile_reader.graph_from_molfile_text envw rfuel text = .ok g₂ ∧
      ∀ fuel' ≥ fuelBound m, tucan env₂ fuel' g₂ = .ok s := by
  obtain ⟨⟨π, iso⟩, okg, hne', _, idg, fb, hrun⟩ :=
    Contracts.Final.C03_fixpoint antlr hV4 envp hs hs hb rfl rfl hm hne hcode fuel hf e p
  have hradg : ∀ i ∈ g.nodeList, ∀ r : Int, g.attr i "rad" = some (Val.int r) → r ≤ 3 := by
    intro i hi r hr
    have r4 := iso "rad" (by decide)
    obtain ⟨a, ha, rfl⟩ := List.mem_map.1 (r4.nodes.mem_iff.1 hi)
    rw [r4.attr a ha] at hr
    exact hradm a ha r hr
  obtain ⟨a, ha, htree⟩ := pipeline_output_tree antlr hV4 hs hb hm hne hcode fuel hf e
  have hg : Tucan.parser.graph_from_tree envp (treeOf a) = .ok g := by
    unfold graphFromTucan at p; rw [htree] at p; exact p
  obtain ⟨hnodes, hnoc, hnob⟩ := parsed_bare envp a ha hg
  have hr := inRange_of_bare hfl okg hnodes hnoc hnob hnb
  obtain ⟨text, g₂, w, r, _, hsame⟩ := C09_tucan' envw hs hs₂ hb hcp hpv hfl idg okg.loopless hne' hradg hr hv hsP
    wfuel rfuel hfw hfr
  refine ⟨text, g₂, w, ?_, r, ?_⟩
  · sorry
  · intro fuel' hfu'
    obtain ⟨s', e1, e2⟩ := hsame (fuelBound g) le_rfl fuel' (by rw [fb]; exact hfu')
    rw [hrun (fuelBound g) le_rfl] at e1
    cases e1
    exact e2

end Contracts.WriterExt
