import Contracts.WriterExt
set_option autoImplicit false
open Py Py.Graph Contracts
open Contracts.V30Line
namespace Contracts.WriterExt
open Contracts.Writer
open Contracts.Final (IdOK InvariantCodeOK posOf)
open Contracts.FinalLabels (fuelBound)
open Contracts.Pipeline (tucan)
open Contracts.Parser (Ast treeOf denote Represents AbstractMol withCode)
open Contracts.RoundTrip (V4 graphFromTucan MolOK idKeys)

/-- **every graph the parser returns is in range.** `a`: any well-formed syntax tree (any accepted TUCAN string,
canonical or not) with fewer than `10^4300` atoms; `g`: the graph the parser returns for it. Then `g` has the identity
facts, no self-loops, and is in the writer's ranges for every environment obeying the float law. -/
theorem parsed_inRange {envw : DepEnv} (hfl : FloatLawful envw) (envp : DepEnv) {a : Ast} (ha : a.Wf)
    (hsm : (Contracts.Parser.expand a.formula).length < 10 ^ 4300) {g : Graph}
    (hg : Tucan.parser.graph_from_tree envp (treeOf a) = .ok g) (hnb : g.edgesData.length < 10 ^ 4300) :
    IdOK g ∧ g.Loopless ∧ InRange envw g := by
  have hok := Contracts.Parser.graph_from_tree_ok envp a ha
  cases ea : denote a with
  | error err => rw [ea] at hok; rw [hg] at hok; cases hok
  | ok mol =>
    rw [ea] at hok
    obtain ⟨g', hg', R⟩ := hok
    obtain rfl : g' = g := Except.ok.inj (hg'.symm.trans hg)
    have hm := Contracts.Final.denote_molWf ha ea
    have okg := Contracts.Final.parsed_molOK R hm (Contracts.Final.denote_small ha ea hsm)
    obtain ⟨hnodes, hnoc, hnob⟩ := parsed_bare envp a ha hg
    exact ⟨Contracts.Final.parsed_idOK R hm, okg.loopless, inRange_of_bare hfl okg hnodes hnoc hnob hnb⟩

/-- `NodeRT`, `EdgeRT` and the plainness of everything printed — the three undischarged hypotheses of
`Final.C09_tucan` / `Final.C09_string` — hold for every graph returned by the parser -/
theorem parsed_nodeRT_edgeRT {envw : DepEnv} (hfl : FloatLawful envw) (envp : DepEnv) {a : Ast} (ha : a.Wf)
    (hsm : (Contracts.Parser.expand a.formula).length < 10 ^ 4300) {g : Graph}
    (hg : Tucan.parser.graph_from_tree envp (treeOf a) = .ok g) (hnb : g.edgesData.length < 10 ^ 4300) :
    (∀ p ∈ g.nodesData, NodeRT envw p) ∧ (∀ e ∈ g.edgesData, EdgeRT e) ∧ (∀ l ∈ logicalLines envw g, Plain l) := by
  obtain ⟨ok, _, hr⟩ := parsed_inRange hfl envp ha hsm hg hnb
  have hn := nodeRT_of_inRange hfl ok hr
  exact ⟨hn, hr.bond, plain_logicalLines' hn hr.coords hr.bond⟩

end Contracts.WriterExt
