import Contracts.WriterExt
set_option autoImplicit false
open Py Py.Graph Contracts
namespace Contracts.WriterExt

/-- a graph built by `graph_from_molecule` from a bond dictionary whose values are all empty carries no bond data -/
theorem graph_from_molecule_noBondData (env : DepEnv) (A : Dict Int Attrs) (B : Dict (Int × Int) Attrs)
    (hB : ∀ p ∈ B.items, p.2 = Dict.empty) {g : Graph} {R : Dict Int Attrs}
    (e : Tucan.graph_utils.graph_from_molecule env A B = .ok (g, R)) :
    ∀ x y d, g.edgeAttrs x y = some d → ∀ k, d.get? k = none := by
  unfold Tucan.graph_utils.graph_from_molecule at e
  simp only [] at e
  revert e
  generalize Tucan.graph_utils._add_invariant_code env A _ = r
  cases r with
  | error err => intro e; cases e
  | ok T =>
    intro e
    simp only [ok_bind, pure_eq_ok] at e
    obtain ⟨rfl, -⟩ := Prod.mk.inj (Except.ok.inj e)
    have w1 : (Graph.empty.addNodesFrom T.keys).WF := Graph.WF_addNodesFrom Graph.WF_empty _
    have e1 : ∀ x y, (Graph.empty.addNodesFrom T.keys).edgeAttrs x y = none := by
      intro x y
      rw [Graph.addNodesFrom_eq, Graph.edgeAttrs_addNodesFromData Graph.WF_empty]
      · rfl
      · intro p hp; obtain ⟨i, _, rfl⟩ := List.mem_map.mp hp; exact Dict.WF_empty
    set G2 := (Graph.empty.addNodesFrom T.keys).setNodeAttrDicts T with hG2
    have w2 : G2.WF := Graph.WF_setNodeAttrDicts w1 _
    have e2 : ∀ x y, G2.edgeAttrs x y = none := by
      intro x y; rw [hG2, Graph.edgeAttrs_setNodeAttrDicts, e1]
    set G3 := G2.addEdgesFrom B.keys with hG3
    have w3 : G3.WF := Graph.WF_addEdgesFrom w2 _
    have p3 : Contracts.Parser.Plain G3 :=
      Contracts.Parser.plain_addEdgesFrom G2 w2 (fun x y a h => by rw [e2] at h; cases h) _
    have h4 : G3.setEdgeAttrDicts B = G3 := Contracts.Parser.setEdgeAttrDicts_plain G3 w3 B hB
    rw [h4]
    obtain ⟨w5, -, rel, -⟩ := Graph.convertNodeLabelsToIntegers_spec w3
    intro x y d hd k
    have hx := w5.left_mem_of_edgeAttrs hd
    obtain ⟨u, hu, rfl⟩ := List.mem_map.1 (rel.nodes.mem_iff.1 hx)
    have hy : y ∈ G3.convertNodeLabelsToIntegers.nbrs (Int.ofNat (G3.nodeList.idxOf u)) := by
      rw [Graph.mem_nbrs_iff, hd]; rfl
    obtain ⟨v, hv, rfl⟩ := List.mem_map.1 ((rel.nbrs u hu).mem_iff.1 hy)
    have hvn := w3.nbr_mem u v hv
    rw [Graph.mem_nbrs_iff] at hv
    obtain ⟨a, ha⟩ := Option.isSome_iff_exists.1 hv
    obtain ⟨b, hb, hab⟩ := rel.eattrs u hu v hvn a ha
    rw [hb] at hd
    obtain rfl := Option.some.inj hd
    rw [← hab k, p3 _ _ a ha]; rfl

end Contracts.WriterExt
