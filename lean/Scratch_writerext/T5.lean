import Contracts.WriterExt
set_option autoImplicit false
open Py Py.Graph Contracts
open Contracts.V30Line
namespace Contracts.WriterExt
open Contracts.Writer
open Contracts.Final (IdOK InvariantCodeOK posOf)
open Contracts.FinalLabels (fuelBound)
open Contracts.Pipeline (tucan)
open Contracts.Parser (Ast treeOf denote Represents AbstractMol withCode)
open Contracts.RoundTrip (V4 graphFromTucan MolOK idKeys)

/-- **C09 (graph → molfile → graph keeps the TUCAN string)** — `Final.C09_tucan` with the writer's side conditions
`NodeRT` / `PlainValues` replaced by the float law and the property's ranges. -/
theorem C09_tucan' {env₁ env₂ : DepEnv} (envw : DepEnv) (hs₁ : env₁.SetLawful) (hs₂ : env₂.SetLawful)
    (hb : BlissLawful env₁) (hcp : env₂.canonicalPermutation = env₁.canonicalPermutation)
    (hpv : env₂.permuteVertices = env₁.permuteVertices) (hfl : FloatLawful envw)
    {g : Graph} (ok : IdOK g) (hl : g.Loopless) (hne : g.nodeList ≠ [])
    (hrad : ∀ i ∈ g.nodeList, ∀ r : Int, g.attr i "rad" = some (Val.int r) → r ≤ 3)
    (hr : InRange envw g) (hv : Plain envw.version) (hsP : Plain envw.nowStamp)
    (wfuel rfuel : Nat) (hf : maxLen (logicalLines envw g) / 71 + 1 ≤ wfuel)
    (hf' : (fileLines envw g).length + 1 ≤ rfuel) :
    ∃ text g₂, Tucan.molfile_writer.graph_to_molfile envw wfuel g false = .ok text ∧
      Tucan.molfile_reader.graph_from_molfile_text envw rfuel text = .ok g₂ ∧ fuelBound g₂ = fuelBound g ∧
      ∀ fuel ≥ fuelBound g, ∀ fuel' ≥ fuelBound g, ∃ s, tucan env₁ fuel g = .ok s ∧ tucan env₂ fuel' g₂ = .ok s := by
  have hn := nodeRT_of_inRange hfl ok hr
  have hpl := plain_logicalLines' hn hr.coords hr.bond
  obtain ⟨g₂, w, r, wg₂, cg₂, _, _, iso⟩ := writeRead_core ok hl hrad hn hr.bond hr.na hr.nb
    (splitlines_written hv hsP hpl).1 wfuel rfuel hf hf'
  have hiso := Contracts.Final.isIsoOn_code iso ok.code cg₂
  have fb : fuelBound g₂ = fuelBound g := Contracts.RoundTrip.fuelBound_iso hiso
  refine ⟨_, g₂, w, r, fb, ?_⟩
  intro fuel hfu fuel' hfu'
  exact Contracts.Pipeline.C01_tucan hs₁ hs₂ hb hcp hpv ok.wf wg₂ hne ok.carries_code ok.carries_Z hiso
    (fun key hk n hn' => (iso key hk).attr n hn') ok.codeDetermines fuel fuel' hfu (by rw [fb]; exact hfu')

/-! ## 4. the TUCAN parser's graphs are in range -/

section parser
open Contracts.Parser

theorem graph_from_molecule_noBondData (env : DepEnv) (A : Dict Int Attrs) (B : Dict (Int × Int) Attrs)
    (hB : ∀ p ∈ B.items, p.2 = Dict.empty) {g : Graph} {R : Dict Int Attrs}
    (e : Tucan.graph_utils.graph_from_molecule env A B = .ok (g, R)) :
    ∀ x y d, g.edgeAttrs x y = some d → ∀ k, d.get? k = none := by
  sorry

theorem parsed_noBondData (env : DepEnv) (a : Ast) (h : a.Wf) {g : Graph}
    (hg : Tucan.parser.graph_from_tree env (treeOf a) = .ok g) :
    ∀ x y d, g.edgeAttrs x y = some d → ∀ k, d.get? k = none := by
  sorry

/-- a graph without coordinates and bond data, nodes `0 … n-1`, small numbers, is in range for every lawful
writer environment -/
theorem inRange_of_bare {env : DepEnv} (hfl : FloatLawful env) {g : Graph} (hm : MolOK g)
    (hnodes : ∃ n : Nat, g.nodeList = range (n : Int))
    (hnoc : ∀ i, ∀ k ∈ coordKeys, g.attr i k = none)
    (hnob : ∀ x y d, g.edgeAttrs x y = some d → d.get? "bond_type" = none)
    (hnb : g.edgesData.length < 10 ^ 4300) : InRange env g := by
  have hlen : g.nodesData.length = g.nodeList.length := by simp [Graph.nodesData, Graph.nodeList, Dict.keys]
  refine ⟨?_, ?_, ?_, ?_, by rw [hlen]; exact hm.small, hnb⟩
  · intro p hp k hk
    obtain ⟨_, _, hattr⟩ := node_of_mem hm.wf hp
    have : coord p.2 k = Val.int 0 := by
      unfold coord; rw [← hattr, hnoc p.1 k hk]; rfl
    rw [this]; exact hfl.finite_zero
  · intro e he
    have := hnob _ _ _ (Graph.edgeAttrs_of_mem_edgesData hm.wf he)
    exact ⟨1, by rw [this]; rfl, by norm_num⟩
  · intro n hn
    obtain ⟨N, hN⟩ := hnodes
    have hs := hm.small
    rw [hN, Contracts.RoundTrip.length_range] at hs
    rw [hN, Contracts.Parser.mem_range] at hn
    have : (n + 1).natAbs ≤ N := by omega
    omega
  · intro p hp m hmm
    obtain ⟨_, hn, hattr⟩ := node_of_mem hm.wf hp
    obtain ⟨hi, _⟩ := wMass_spec p.2 m hmm
    have hv : g.attr p.1 "mass" = some (Val.int m) := by
      rw [hattr]
      unfold intAttr at hi
      split at hi
      · rename_i i hget; rw [hget]; cases hi; rfl
      · cases hi
    obtain ⟨i, h1, h2, e⟩ := hm.mass p.1 hn _ hv
    cases e
    omega

end parser
end Contracts.WriterExt
