/-
Error-tolerant module build (used by vlib/leanbuild.py only after the normal `lean -o` build of a module has failed):
elaborates the file like `lean` does, prints all messages, and writes the .olean even when there were errors.
Lean's elaborator adds a declaration whose proof failed with `sorryAx` in place of the failed part (and omits a
declaration whose statement failed), so modules importing the result can still be checked, and `#print axioms`
of a theorem downstream shows `sorryAx` exactly when something in its dependency cone failed.
usage: lean --run Tools/Tolerant.lean <file.lean> <Module.Name> <out.olean>
-/
import Lean
open Lean Elab

unsafe def main (args : List String) : IO UInt32 := do
  let [file, modName, out] := args | do IO.eprintln "usage: Tolerant <file> <module> <out.olean>"; return 2
  enableInitializersExecution
  initSearchPath (← findSysroot)
  let input ← IO.FS.readFile file
  let inputCtx := Parser.mkInputContext input file
  let (header, parserState, messages) ← Parser.parseHeader inputCtx
  let (env, messages) ← processHeader header {} messages inputCtx
  let env := env.setMainModule modName.toName
  let commandState := Command.mkState env messages {}
  let s ← IO.processCommands inputCtx parserState commandState
  let mut errs := 0
  for msg in s.commandState.messages.toList do
    if msg.severity == .error then errs := errs + 1
    IO.print (← msg.toString (includeEndPos := false))
  writeModule s.commandState.env out
  IO.eprintln s!"tolerant build: {errs} error(s), olean written"
  return (if errs == 0 then 0 else 1)
