/-
`#cone [thm₁ thm₂ …] [wit₁ …]` prints the names of the given theorems that do not exist, the project-local declarations (modules under Contracts, ContractsBase,
Spec, Probe, and the extracted functions under Generated / Baseline) that the statements and proofs of the first group depend on, transitively, and what the second group needs in addition. vlib/check.py uses it to determine which obligations
belong to a property: the dependency cone of its property-level theorems.
-/
import Lean
open Lean Elab Command

namespace VerifTools

partial def cone (env : Environment) (isLocal : Name → Bool) (todo : List Name) (seen : NameSet) : NameSet :=
  match todo with
  | [] => seen
  | n :: rest =>
    if seen.contains n then cone env isLocal rest seen else
    let seen := seen.insert n
    match env.find? n with
    | none => cone env isLocal rest seen
    | some ci =>
      let used := ci.type.getUsedConstants ++
        (match ci.value? (allowOpaque := true) with | some v => v.getUsedConstants | none => #[])
      let next := used.toList.filter (fun c => !seen.contains c && isLocal c)
      cone env isLocal (next ++ rest) seen

elab "#cone " "[" tops:ident* "]" "[" wits:ident* "]" : command => do
  let env ← getEnv
  let localRoots : List Name := [`Contracts, `ContractsBase, `Spec, `Probe, `Generated, `Baseline]
  let isLocal (c : Name) : Bool :=
    match env.getModuleIdxFor? c with
    | some idx => localRoots.contains (env.header.moduleNames[idx.toNat]!).getRoot
    | none => true
  let present (ids : Array Syntax) : List Name := (ids.toList.map (·.getId)).filter (fun n => (env.find? n).isSome)
  let missing := ((tops ++ wits).toList.map (·.getId)).filter (fun n => (env.find? n).isNone)
  let sTop := cone env isLocal (present tops) {}
  let sAll := cone env isLocal (present wits) sTop
  let str (l : List Name) := " ".intercalate (l.map (fun c => c.toString (escape := false)))
  logInfo m!"cone missing: {str missing}"
  logInfo m!"cone top: {str sTop.toList}"
  logInfo m!"cone wit: {str (sAll.toList.filter (fun c => !sTop.contains c))}"

end VerifTools
