import Contracts.Parser
set_option autoImplicit false
open Py Tucan.parser
namespace Contracts.Parser

/-! ## 4. Reachability: `Wf` is satisfiable and both outcomes of `denote` occur -/

/-- `H2O/(1-3)(2-3)/(1:mass=2)(3:rad=2)` -/
def water : Ast :=
  { formula := [(py!"H", some py!"2"), (py!"O", none)]
    tuples := [(py!"1", py!"3"), (py!"2", py!"3")]
    attrs := some [(py!"1", [(Key.mass, py!"2")]), (py!"3", [(Key.rad, py!"2")])] }

/-- `H2O/(1-4)`: atom 4 does not exist -/
def badWater : Ast :=
  { formula := [(py!"H", some py!"2"), (py!"O", none)]
    tuples := [(py!"1", py!"4")]
    attrs := none }

theorem numWf_of_decide (ds : Str) (h : (decide (ds ≠ []) && ds.all isAsciiDigit && decide (ds.head? ≠ some '0') &&
    decide (ds.length ≤ intMaxStrDigits)) = true) : NumWf ds := by
  simp only [Bool.and_eq_true, decide_eq_true_eq] at h
  exact ⟨h.1.1.1, h.1.1.2, h.1.2, h.2⟩

theorem water_wf : water.Wf where
  syms := by rw [keys_eq_table]; decide
  counts := by
    intro p hp ds hds
    simp only [water, List.mem_cons, List.not_mem_nil, or_false] at hp
    rcases hp with rfl | rfl
    · cases hds; exact ⟨numWf_of_decide _ (by decide), by decide⟩
    · cases hds
  tuples := by
    intro t ht
    simp only [water, List.mem_cons, List.not_mem_nil, or_false] at ht
    rcases ht with rfl | rfl <;> exact ⟨numWf_of_decide _ (by decide), numWf_of_decide _ (by decide)⟩
  attrs := by
    intro bs hbs b hb
    cases hbs
    simp only [List.mem_cons, List.not_mem_nil, or_false] at hb
    rcases hb with rfl | rfl
    · refine ⟨numWf_of_decide _ (by decide), ?_⟩
      intro kv hkv; simp only [List.mem_cons, List.not_mem_nil, or_false] at hkv; subst hkv
      exact numWf_of_decide _ (by decide)
    · refine ⟨numWf_of_decide _ (by decide), ?_⟩
      intro kv hkv; simp only [List.mem_cons, List.not_mem_nil, or_false] at hkv; subst hkv
      exact numWf_of_decide _ (by decide)

theorem water_sorted : sortedSyms water = [py!"H", py!"H", py!"O"] := by
  unfold sortedSyms
  have : expand water.formula = [py!"H", py!"H", py!"O"] := by decide
  rw [this]
  apply List.mergeSort_of_pairwise
  decide

theorem water_ok : ¬ (water.BadIndex ∨ water.SelfBond ∨ water.DupAttr) := by
  have h1 : ¬ water.BadIndex := by unfold Ast.BadIndex; rw [water_sorted]; decide
  have h2 : ¬ water.SelfBond := by decide
  have h3 : ¬ water.DupAttr := by decide
  tauto

theorem badWater_wf : badWater.Wf where
  syms := by rw [keys_eq_table]; decide
  counts := by
    intro p hp ds hds
    simp only [badWater, List.mem_cons, List.not_mem_nil, or_false] at hp
    rcases hp with rfl | rfl
    · cases hds; exact ⟨numWf_of_decide _ (by decide), by decide⟩
    · cases hds
  tuples := by
    intro t ht
    simp only [badWater, List.mem_cons, List.not_mem_nil, or_false] at ht
    subst ht; exact ⟨numWf_of_decide _ (by decide), numWf_of_decide _ (by decide)⟩
  attrs := by intro bs hbs; cases hbs

/-- an accepted string and its molecule -/
example : water.Wf ∧ denote water = .ok
    { atoms := [⟨py!"H", 1, some 2, none⟩, ⟨py!"H", 1, none, none⟩, ⟨py!"O", 8, none, some 2⟩],
      bonds := [(0, 2), (1, 2)] } := by
  refine ⟨water_wf, ?_⟩
  unfold denote
  rw [if_neg water_ok, water_sorted]
  decide

/-- a grammatical string that is rejected -/
example : badWater.Wf ∧ denote badWater = .error TPE := by
  refine ⟨badWater_wf, ?_⟩
  unfold denote
  rw [if_pos]
  left
  unfold Ast.BadIndex
  rw [sorted_length]
  decide

end Contracts.Parser
