import Contracts.Parser
set_option autoImplicit false
open Py Tucan.parser
#print TucanListenerImpl._parse_sum_formula
#print TucanListenerImpl.to_graph
