import Contracts.Parser
set_option autoImplicit false
open Py Tucan.parser
namespace Contracts.Parser

/-! ### `graph_from_molecule` -/

theorem tab_congr (n : Nat) (h h' : Int → Attrs) (hh : ∀ i ∈ range (n : Int), h i = h' i) : tab n h = tab n h' := by
  unfold tab; congr 1
  apply List.map_congr_left
  intro i hi; rw [hh i hi]

theorem foldl_update_mem {α : Type} (l : List α) (key : α → Int) (G : α → Attrs → Attrs)
    (hn : (l.map key).Nodup) (h : Int → Attrs) (x : α) (hx : x ∈ l) :
    (l.foldl (fun h x => Function.update h (key x) (G x (h (key x)))) h) (key x) = G x (h (key x)) := by
  rw [foldl_update_nodup l key G hn]
  cases hf : l.find? (fun y => key y = key x) with
  | none =>
    rw [List.find?_eq_none] at hf
    exact absurd (by simp) (hf x hx)
  | some y =>
    have hy := List.mem_of_find?_eq_some hf
    have hk : key y = key x := by simpa using List.find?_some hf
    rw [List.inj_on_of_nodup_map hn hy hx hk]

/-- the invariant code `(atomic_number, mass or 0, rad or 0)` -/
def codeOf (a : Attrs) : Val :=
  Val.mkTup [(a.get? "atomic_number").getD Val.none, a.getD "mass" (Val.int 0), a.getD "rad" (Val.int 0)]
def withCode (a : Attrs) : Attrs := a.update (Dict.ofPairs [("invariant_code", codeOf a)])

theorem _add_invariant_code_ok (env : DepEnv) (n : Nat) (A : Int → Attrs)
    (hz : ∀ i ∈ range (n : Int), ∃ z, (A i).get? "atomic_number" = some z) :
    Tucan.graph_utils._add_invariant_code env (tab n A)
      [{ key := "atomic_number" }, { key := "mass", default_value := some (toVal (0 : Int)) },
        { key := "rad", default_value := some (toVal (0 : Int)) }] =
      .ok (tab n (fun i => withCode (A i))) := by
  unfold Tucan.graph_utils._add_invariant_code
  have hitems : (tab n A).items = (range (n : Int)).map (fun i => (i, A i)) := rfl
  simp only [hitems]
  rw [forIn_tab n _ Prod.fst (fun p a => a.update (Dict.ofPairs [("invariant_code", codeOf p.2)])) _ (fun _ => True) Err.key]
  · simp only [implies_true, if_true, ok_bind, pure_eq_ok]
    congr 1
    apply tab_congr
    intro i hi
    have hn : (((range (n : Int)).map (fun i => (i, A i))).map Prod.fst).Nodup := by
      simp only [List.map_map, Function.comp_def, List.map_id']; exact Graph.nodup_range _
    have := foldl_update_mem _ Prod.fst (fun (p : Int × Attrs) (a : Attrs) => a.update (Dict.ofPairs [("invariant_code", codeOf p.2)]))
      hn A (i, A i) (List.mem_map.mpr ⟨i, hi, rfl⟩)
    exact this
  · rintro ⟨i, a⟩ hp h
    obtain ⟨j, hj, he⟩ := List.mem_map.mp hp
    simp only [Prod.mk.injEq] at he
    obtain ⟨rfl, rfl⟩ := he
    obtain ⟨z, hz⟩ := hz j hj
    have hg : (getItem (tab n h) j : M Attrs) = .ok (h j) :=
      getItem_dict_ok _ _ _ (by show (tab n h).get? j = _; rw [tab_get?, if_pos hj])
    have hga : (getItem (A j) "atomic_number" : M Val) = .ok z := getItem_dict_ok _ _ _ hz
    simp [listComp, isNone, hga, hg, codeOf, hz, toVal, ToVal.toVal]
  · rintro ⟨i, a⟩ hp _
    obtain ⟨j, hj, he⟩ := List.mem_map.mp hp
    simp only [Prod.mk.injEq] at he
    obtain ⟨rfl, rfl⟩ := he
    exact hj

/-- every bond carries the empty attribute dict -/
def Plain (g : Graph) : Prop := ∀ x y a, g.edgeAttrs x y = some a → a = Dict.empty

theorem plain_addEdgesFrom (g : Graph) (hg : g.WF) (hp : Plain g) (es : List (Int × Int)) :
    Plain (g.addEdgesFrom es) := by
  unfold Graph.addEdgesFrom
  induction es generalizing g with
  | nil => exact hp
  | cons e es ih =>
    rw [List.foldl_cons]
    apply ih _ (Graph.WF_addEdge hg _ _ _)
    intro x y a h
    rw [Graph.edgeAttrs_addEdge hg] at h
    split at h
    · cases h
      unfold Graph.newEdgeData
      cases hq : g.edgeAttrs e.1 e.2 with
      | none => rfl
      | some d => rw [hp _ _ d hq]; rfl
    · exact hp x y a h

theorem graph_eta (g : Graph) : ({ g with adj := g.adj } : Graph) = g := by cases g; rfl

def edgeStep (g : Graph) (p : (Int × Int) × Attrs) : Graph :=
  let (u, v) := p.1
  match g.adj.get? u with
  | Option.none => g
  | some au =>
    match au.get? v with
    | Option.none => g
    | some d =>
      let d' := d.update p.2
      let g := { g with adj := g.adj.set u (au.set v d') }
      match g.adj.get? v with
      | Option.none => g
      | some av => { g with adj := g.adj.set v (av.set u d') }

theorem setEdgeAttrDicts_eq (g : Graph) (values : Dict (Int × Int) Attrs) :
    g.setEdgeAttrDicts values = values.items.foldl edgeStep g := rfl

theorem edgeStep_plain (g : Graph) (hg : g.WF) (u v : Int) : edgeStep g ((u, v), Dict.empty) = g := by
  unfold edgeStep
  simp only
  cases hu : g.adj.get? u with
  | none => rfl
  | some au =>
    simp only
    cases hvv : au.get? v with
    | none => rfl
    | some d =>
      have hd : d.update Dict.empty = d := rfl
      have h1 : au.set v d = au := Dict.set_eq_self (hg.nbr_wf u au hu) hvv
      have h2 : g.adj.set u au = g.adj := Dict.set_eq_self hg.adj_wf hu
      simp only [hd, h1, h2]
      cases hav : g.adj.get? v with
      | none => rfl
      | some av =>
        have huv : g.edgeAttrs u v = some d := by simp [Graph.edgeAttrs, hu, hvv]
        have hvu := hg.symm u v d huv
        have h3 : av.get? u = some d := by simpa [Graph.edgeAttrs, hav] using hvu
        have h4 : av.set u d = av := Dict.set_eq_self (hg.nbr_wf v av hav) h3
        have h5 : g.adj.set v av = g.adj := Dict.set_eq_self hg.adj_wf hav
        simp only [h4, h5]

theorem setEdgeAttrDicts_plain (g : Graph) (hg : g.WF) (values : Dict (Int × Int) Attrs)
    (hv : ∀ p ∈ values.items, p.2 = Dict.empty) : g.setEdgeAttrDicts values = g := by
  rw [setEdgeAttrDicts_eq]
  generalize values.items = l at hv
  induction l with
  | nil => rfl
  | cons p l ih =>
    obtain ⟨⟨u, v⟩, e⟩ := p
    have he : e = Dict.empty := hv ((u, v), e) (by simp)
    subst he
    rw [List.foldl_cons, edgeStep_plain g hg]
    exact ih (fun q hq => hv q (by simp [hq]))


theorem mem_items_set {κ ν : Type} [DecidableEq κ] (d : Dict κ ν) (k : κ) (v : ν) (p : κ × ν)
    (h : p ∈ (d.set k v).items) : p ∈ d.items ∨ p = (k, v) := by
  unfold Dict.set at h
  split at h
  · simp only [List.mem_map] at h
    obtain ⟨q, hq, rfl⟩ := h
    split
    · exact Or.inr rfl
    · exact Or.inl hq
  · simp only [List.mem_append, List.mem_singleton] at h
    exact h

theorem mem_items_updatePairs {κ ν : Type} [DecidableEq κ] (d : Dict κ ν) (l : List (κ × ν)) (p : κ × ν)
    (h : p ∈ (d.updatePairs l).items) : p ∈ d.items ∨ p ∈ l := by
  induction l generalizing d with
  | nil => exact Or.inl h
  | cons q l ih =>
    rw [Dict.updatePairs_cons] at h
    rcases ih _ h with h | h
    · rcases mem_items_set _ _ _ _ h with h | h
      · exact Or.inl h
      · exact Or.inr (by simp [h])
    · exact Or.inr (by simp [h])

theorem graph_from_molecule_ok (env : DepEnv) (n : Nat) (A : Int → Attrs) (bonds : List (Int × Int))
    (hA : ∀ i ∈ range (n : Int), (A i).WF)
    (hz : ∀ i ∈ range (n : Int), ∃ z, (A i).get? "atomic_number" = some z)
    (hb : ∀ b ∈ bonds, b.1 ∈ range (n : Int) ∧ b.2 ∈ range (n : Int)) :
    ∃ g R, Tucan.graph_utils.graph_from_molecule env (tab n A)
        (Dict.ofPairs (bonds.map (fun b => (b, (Dict.empty : Attrs))))) = .ok (g, R) ∧
      g.WF ∧ g.nodeList = range (n : Int) ∧ (∀ i ∈ range (n : Int), g.node.get? i = some (withCode (A i))) ∧
      (∀ x y, y ∈ g.nbrs x ↔ (x, y) ∈ bonds ∨ (y, x) ∈ bonds) := by
  unfold Tucan.graph_utils.graph_from_molecule
  simp only [_add_invariant_code_ok env n A hz, ok_bind, pure_eq_ok]
  set T := tab n (fun i => withCode (A i)) with hT
  set bd : Dict (Int × Int) Attrs := Dict.ofPairs (bonds.map (fun b => (b, (Dict.empty : Attrs)))) with hbd
  have hTk : T.keys = range (n : Int) := tab_keys _ _
  rw [hTk]
  -- nodes
  have hnd : (Graph.empty.nodeList ++ range (n : Int)).Nodup := by simpa using Graph.nodup_range (n : Int)
  have w1 : (Graph.empty.addNodesFrom (range (n : Int))).WF := Graph.WF_addNodesFrom Graph.WF_empty _
  have n1 : (Graph.empty.addNodesFrom (range (n : Int))).nodeList = range (n : Int) := by
    rw [Graph.nodeList_addNodesFrom_fresh Graph.WF_empty _ hnd]; simp
  have g1 : ∀ i ∈ range (n : Int), (Graph.empty.addNodesFrom (range (n : Int))).node.get? i = some Dict.empty := by
    intro i hi
    apply Dict.get?_of_mem_items w1.node_wf
    rw [(Graph.addNodesFrom_fresh Graph.WF_empty _ hnd).1]
    simp only [Graph.empty, Dict.empty, List.nil_append, List.mem_map]
    exact ⟨i, hi, rfl⟩
  have e1 : ∀ x y, (Graph.empty.addNodesFrom (range (n : Int))).edgeAttrs x y = none := by
    intro x y
    rw [Graph.addNodesFrom_eq, Graph.edgeAttrs_addNodesFromData Graph.WF_empty]
    · rfl
    · intro p hp; obtain ⟨i, _, rfl⟩ := List.mem_map.mp hp; exact Dict.WF_empty
  -- node attributes
  set G2 := (Graph.empty.addNodesFrom (range (n : Int))).setNodeAttrDicts T with hG2
  have w2 : G2.WF := Graph.WF_setNodeAttrDicts w1 _
  have n2 : G2.nodeList = range (n : Int) := by rw [hG2, Graph.nodeList_setNodeAttrDicts, n1]
  have g2 : ∀ i ∈ range (n : Int), G2.node.get? i = some (withCode (A i)) := by
    intro i hi
    rw [hG2, Graph.node_get?_setNodeAttrDicts _ (tab_wf _ _), tab_get?, if_pos hi]
    simp only [g1 i hi, Option.map_some]
    have hw : (withCode (A i)).WF := Dict.WF_update (hA i hi) _
    rw [Dict.empty_update hw]
  have e2 : ∀ x y, G2.edgeAttrs x y = none := by
    intro x y; rw [hG2, Graph.edgeAttrs_setNodeAttrDicts, e1]
  -- bonds
  have hbk : ∀ e, e ∈ bd.keys ↔ e ∈ bonds := by
    intro e
    rw [hbd, Dict.ofPairs_eq_updatePairs, Dict.mem_keys_updatePairs]
    simp [List.map_map, Function.comp_def]
  set G3 := G2.addEdgesFrom bd.keys with hG3
  have w3 : G3.WF := Graph.WF_addEdgesFrom w2 _
  have hmem : ∀ e ∈ bd.keys, e.1 ∈ G2.nodeList ∧ e.2 ∈ G2.nodeList := by
    intro e he; rw [n2]; exact hb e ((hbk e).mp he)
  have nd3 : G3.node = G2.node := Graph.node_addEdgesFrom_of_mem _ hmem
  have n3 : G3.nodeList = range (n : Int) := by unfold Graph.nodeList; rw [nd3]; exact n2
  have b3 : ∀ x y, y ∈ G3.nbrs x ↔ (x, y) ∈ bonds ∨ (y, x) ∈ bonds := by
    intro x y
    rw [hG3, Graph.mem_nbrs_addEdgesFrom w2, hbk, hbk, Graph.mem_nbrs_iff, e2]
    simp
  have p3 : Plain G3 := plain_addEdgesFrom G2 w2 (fun x y a h => by rw [e2] at h; cases h) _
  have hvals : ∀ p ∈ bd.items, p.2 = Dict.empty := by
    intro p hp
    rw [hbd, Dict.ofPairs_eq_updatePairs] at hp
    rcases mem_items_updatePairs _ _ _ hp with h | h
    · simp [Dict.empty] at h
    · obtain ⟨b, _, rfl⟩ := List.mem_map.mp h; rfl
  have h4 : G3.setEdgeAttrDicts bd = G3 := setEdgeAttrDicts_plain G3 w3 bd hvals
  rw [h4]
  -- relabelling
  have hr : G3.nodeList = range G3.numberOfNodes := by
    rw [Graph.numberOfNodes_eq, n3]; simp [Graph.length_range]
  obtain ⟨hsame, hnl, hget⟩ := Graph.same_convertNodeLabelsToIntegers_of_range w3 hr
  have w5 := (Graph.convertNodeLabelsToIntegers_spec w3).1
  refine ⟨_, _, rfl, w5, by rw [hnl, n3], ?_, ?_⟩
  · intro i hi; rw [hget, nd3, g2 i hi]
  · intro x y
    rw [← b3]
    by_cases hx : x ∈ G3.nodeList
    · have := (hsame.nbrs x hx).mem_iff (a := y)
      simpa using this
    · have h5 : x ∉ G3.convertNodeLabelsToIntegers.nodeList := by rw [hnl]; exact hx
      simp [Graph.nbrs, w3.adj_get?_eq_none hx, w5.adj_get?_eq_none h5]

end Contracts.Parser
