import Generated.Parser
import Spec.GraphView
set_option autoImplicit false
open Py

def TPE : Err := Err.custom "TucanParserException"

theorem digit_not_space (c : Char) (h : isAsciiDigit c = true) : isPySpace c = false := by
  cases hs : isPySpace c with
  | false => rfl
  | true =>
    exfalso
    simp only [isPySpace, Bool.decide_or, Bool.or_eq_true, decide_eq_true_eq] at hs
    rcases hs with rfl | rfl | rfl | rfl | rfl | rfl | rfl | rfl | rfl | rfl | rfl | rfl <;> revert h <;> decide

theorem digit_ne (c d : Char) (h : isAsciiDigit c = true) (hd : isAsciiDigit d = false) : c ≠ d := by
  rintro rfl; simp [h] at hd

theorem isInfixOf_uu (ds : Str) (h : ∀ c ∈ ds, c ≠ '_') : isInfixOf (py!"__") ds = false := by
  unfold isInfixOf
  induction ds with
  | nil => decide
  | cons c cs ih =>
    have hc : c ≠ '_' := h c (by simp)
    have := ih (fun x hx => h x (by simp [hx]))
    simp only [List.tails, List.any_cons, this, Bool.or_false]
    simp [List.isPrefixOf, hc.symm]

theorem parseInt_digits (ds : Str) (hne : ds ≠ []) (hd : ds.all isAsciiDigit = true) :
    parseInt ds = if ds.length ≤ intMaxStrDigits then .ok (digitsToNat ds : Int) else .error .value := by
  have hall : ∀ c ∈ ds, isAsciiDigit c = true := by simpa using hd
  have hnu : ∀ c ∈ ds, c ≠ '_' := fun c hc => digit_ne c '_' (hall c hc) (by decide)
  have h1 : ds.dropWhile isPySpace = ds := by
    cases ds with
    | nil => rfl
    | cons c cs => simp [List.dropWhile, digit_not_space c (hall c (by simp))]
  have h2 : rstrip ds = ds := by
    unfold rstrip
    have : ds.reverse.dropWhile isPySpace = ds.reverse := by
      cases hr : ds.reverse with
      | nil => rfl
      | cons c cs =>
        have : c ∈ ds := by
          have : c ∈ ds.reverse := by simp [hr]
          simpa using this
        simp [List.dropWhile, digit_not_space c (hall c this)]
    rw [this, List.reverse_reverse]
  have h3 : ds.filter (· ≠ '_') = ds := by
    rw [List.filter_eq_self]; intro c hc; simpa using hnu c hc
  have h4 : ds.head? ≠ some '_' := by
    intro h; exact hnu _ (List.mem_of_head? h) rfl
  have h5 : ds.getLast? ≠ some '_' := by
    intro h; exact hnu _ (List.mem_of_getLast? h) rfl
  have h6 := isInfixOf_uu ds hnu
  unfold parseInt
  simp only [h1, h2]
  cases ds with
  | nil => exact absurd rfl hne
  | cons c cs =>
    have hc := hall c (by simp)
    have hm : c ≠ '-' := digit_ne c '-' hc (by decide)
    have hp : c ≠ '+' := digit_ne c '+' hc (by decide)
    split
    · rename_i h; simp at h; exact absurd h.1 hm
    · rename_i h; simp at h; exact absurd h.1 hp
    · have hcond : decide ((c :: cs).head? ≠ some '_' ∧ (c :: cs).getLast? ≠ some '_' ∧ isInfixOf (py!"__") (c :: cs) = false) = true :=
        decide_eq_true ⟨h4, h5, h6⟩
      simp only [h3, hcond, hd]
      have e1 : ((c :: cs) = [] ∨ true = false ∨ true = false ∨ (c :: cs).length > intMaxStrDigits) ↔ ¬ (c :: cs).length ≤ intMaxStrDigits := by
        simp
      simp only [e1, ite_not, Bool.false_eq_true, if_false]
      rfl
