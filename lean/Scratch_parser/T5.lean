import Contracts.Parser
set_option autoImplicit false
open Py Tucan.parser
namespace Contracts.Parser

/-- `_add_node_attribute` on the dict of dicts (`i` 0-based) -/
def addAttr (d : Dict Int Attrs) (i : Int) (k : Key) (v : Int) : M (Dict Int Attrs) :=
  let sd := d.getD i Dict.empty
  if sd.contains k.attr then .error TPE else .ok ((d.set i sd).set i (sd.set k.attr (Val.int v)))

theorem _add_node_attribute_ok (env : DepEnv) (st : TucanListenerImpl) (idx : Int) (k : Key) (v : Int) :
    TucanListenerImpl._add_node_attribute env st idx k.text v =
      (addAttr st._node_attributes (idx - 1) k v >>= fun d => .ok { st with _node_attributes := d }) := by
  have g : getItem Tucan.Consts._DESERIALIZER_NODE_ATTRIBUTE_MAPPING k.text = .ok k.attr := by
    cases k <;> rfl
  unfold TucanListenerImpl._add_node_attribute addAttr
  simp only [g, ok_bind, pyContains_dict, setItem_attrs, setItem_dict]
  by_cases hc : (Dict.getD st._node_attributes (idx - 1) (Dict.empty : Attrs)).contains k.attr = true
  · simp [hc, TPE]
  · simp [hc, toVal, ToVal.toVal]

/-! ### texts of number trees -/
@[simp] theorem text_gt1Tree (ds : Str) : (gt1Tree ds).text = ds := by
  simp [gt1Tree, PTree.text, PTree.textList]
@[simp] theorem text_gt0Tree (ds : Str) : (gt0Tree ds).text = ds := by
  unfold gt0Tree
  split <;> simp [PTree.text, PTree.textList]
@[simp] theorem text_indexTree (ds : Str) : (indexTree ds).text = ds := by
  simp [indexTree, PTree.text, PTree.textList]

theorem foldl_digits_ge (cs : Str) (n : Nat) :
    n ≤ cs.foldl (fun n c => 10 * n + (c.toNat - '0'.toNat)) n := by
  induction cs generalizing n with
  | nil => simp
  | cons c cs ih => exact le_trans (by show n ≤ 10 * n + (c.toNat - '0'.toNat); omega) (ih _)

theorem num_pos (ds : Str) (h : NumWf ds) : 1 ≤ num ds := by
  obtain ⟨hne, hd, h0, _⟩ := h
  cases ds with
  | nil => exact absurd rfl hne
  | cons c cs =>
    have hc : isAsciiDigit c = true := by simp at hd; exact hd.1
    have hc0 : c ≠ '0' := by simpa using h0
    have h48 : 48 ≤ c.toNat := by
      simp only [isAsciiDigit, decide_eq_true_eq] at hc
      have := hc.1
      rw [Char.le_def] at this
      exact this
    have hne48 : c.toNat ≠ 48 := by
      intro he
      apply hc0
      have : Char.ofNat c.toNat = Char.ofNat 48 := by rw [he]
      rw [Char.ofNat_toNat] at this
      exact this
    refine le_trans ?_ (foldl_digits_ge cs _)
    show 1 ≤ 10 * 0 + (c.toNat - '0'.toNat)
    have : '0'.toNat = 48 := rfl
    omega

/-- `enterTuple` on a `tuple` node -/
theorem enterTuple_ok (env : DepEnv) (st : TucanListenerImpl) (t : Str × Str) (par : Option PTree)
    (h1 : NumWf t.1) (h2 : NumWf t.2) :
    TucanListenerImpl.enterTuple env st ⟨tupleTree t, par⟩ =
      if num t.1 = num t.2 then .error TPE
      else .ok { st with _bonds := st._bonds ++ [((num t.1 : Int) - 1, (num t.2 : Int) - 1)] } := by
  have c0 : PCtx.childRuleAt ⟨tupleTree t, par⟩ "node_index" 0 = .ok ⟨indexTree t.1, some (tupleTree t)⟩ := by
    simp [PCtx.childRuleAt, tupleTree, PTree.kids, PTree.rule, indexTree]
  have c1 : PCtx.childRuleAt ⟨tupleTree t, par⟩ "node_index" 1 = .ok ⟨indexTree t.2, some (tupleTree t)⟩ := by
    simp [PCtx.childRuleAt, tupleTree, PTree.kids, PTree.rule, indexTree]
  unfold TucanListenerImpl.enterTuple
  simp only [c0, c1, ok_bind, PCtx.getText, text_indexTree, _to_int_ok env _ h1, _to_int_ok env _ h2, _add_bond_ok]
  by_cases he : num t.1 = num t.2
  · simp [he, pyEq, PyCmp.eq, TPE]
  · have : ¬ ((num t.1 : Int) = (num t.2 : Int)) := by exact_mod_cast he
    simp [he, this, pyEq, PyCmp.eq]


theorem find_index (ds : Str) (rest : List PTree) :
    List.find? (fun k => k.rule == "node_index") (PTree.tok (py!"(") :: indexTree ds :: rest) = some (indexTree ds) := by
  simp [PTree.rule, indexTree]

/-- `enterNode_property` on a `node_property` node below a `node_attribute` node -/
theorem enterNode_property_ok (env : DepEnv) (st : TucanListenerImpl) (b : Str × List (Key × Str)) (kv : Key × Str)
    (h1 : NumWf b.1) (h2 : NumWf kv.2) :
    TucanListenerImpl.enterNode_property env st ⟨propTree kv, some (attrTree b)⟩ =
      (addAttr st._node_attributes ((num b.1 : Int) - 1) kv.1 (num kv.2) >>= fun d =>
        .ok { st with _node_attributes := d }) := by
  have c0 : PCtx.parentCtx ⟨propTree kv, some (attrTree b)⟩ = .ok ⟨attrTree b, Option.none⟩ := rfl
  have c1 : PCtx.childRule ⟨attrTree b, Option.none⟩ "node_index" = .ok ⟨indexTree b.1, some (attrTree b)⟩ := by
    simp [PCtx.childRule, attrTree, PTree.kids, PTree.rule, indexTree]
  have c2 : PCtx.childRule ⟨propTree kv, some (attrTree b)⟩ "node_property_key" =
      .ok ⟨.node "node_property_key" [.tok kv.1.text], some (propTree kv)⟩ := by
    simp [PCtx.childRule, propTree, PTree.kids, PTree.rule]
  have c3 : PCtx.childRule ⟨propTree kv, some (attrTree b)⟩ "node_property_value" =
      .ok ⟨.node "node_property_value" [gt0Tree kv.2], some (propTree kv)⟩ := by
    simp [PCtx.childRule, propTree, PTree.kids, PTree.rule]
  have t2 : (PTree.node "node_property_key" [.tok kv.1.text]).text = kv.1.text := by
    simp [PTree.text, PTree.textList]
  have t3 : (PTree.node "node_property_value" [gt0Tree kv.2]).text = kv.2 := by
    simp [PTree.text, PTree.textList]
  unfold TucanListenerImpl.enterNode_property
  simp only [c0, c1, c2, c3, ok_bind, PCtx.getText, text_indexTree, t2, t3, _to_int_ok env _ h1, _to_int_ok env _ h2,
    _add_node_attribute_ok]
  cases addAttr st._node_attributes ((num b.1 : Int) - 1) kv.1 (num kv.2) <;> rfl

theorem text_count (ds : Str) : (PTree.node "count" [gt1Tree ds]).text = ds := by
  simp [PTree.text, PTree.textList]

/-- a `for` loop whose body never breaks is a monadic fold -/
theorem forIn_map_yield {α β σ : Type} (xs : List α) (g : α → β) (body : β → σ → M (ForInStep σ))
    (step : σ → α → M σ) (st : σ)
    (h : ∀ x ∈ xs, ∀ s, body (g x) s = (step s x >>= fun s' => .ok (ForInStep.yield s'))) :
    forIn (xs.map g) st body = xs.foldlM step st := by
  induction xs generalizing st with
  | nil => rfl
  | cons x xs ih =>
    simp only [List.map_cons, List.forIn_cons, List.foldlM_cons, h x (by simp)]
    cases hx : step st x with
    | error e => rfl
    | ok s' =>
      simp only [ok_bind]
      exact ih s' (fun y hy => h y (by simp [hy]))

theorem foldlM_ok {α σ : Type} (xs : List α) (step : σ → α → M σ) (f : σ → α → σ) (st : σ)
    (h : ∀ x ∈ xs, ∀ s, step s x = .ok (f s x)) : xs.foldlM step st = .ok (xs.foldl f st) := by
  induction xs generalizing st with
  | nil => rfl
  | cons x xs ih =>
    simp only [List.foldlM_cons, h x (by simp), ok_bind, List.foldl_cons]
    exact ih _ (fun y hy => h y (by simp [hy]))

/-- `_parse_sum_formula` on a `with_carbon` / `without_carbon` node -/
theorem _parse_sum_formula_ok (env : DepEnv) (st : TucanListenerImpl) (r : String) (par : Option PTree)
    (f : List (Str × Option Str)) (hs : ∀ p ∈ f, p.1 ∈ periodicTable)
    (hc : ∀ p ∈ f, ∀ ds, p.2 = some ds → NumWf ds) :
    TucanListenerImpl._parse_sum_formula env st ⟨.node r (f.map elemTree), par⟩ =
      .ok { st with _atoms := st._atoms ++ (expand f).map baseAttrs } := by
  have fold : ∀ (f : List (Str × Option Str)) (st : TucanListenerImpl),
      f.foldl (fun (s : TucanListenerImpl) p => { s with _atoms := s._atoms ++ List.replicate (countOf p.2) (baseAttrs p.1) }) st =
        { st with _atoms := st._atoms ++ (expand f).map baseAttrs } := by
    intro f
    induction f with
    | nil => intro st; simp [expand]
    | cons p f ih => intro st; simp [ih, expand]
  unfold TucanListenerImpl._parse_sum_formula
  by_cases h0 : f = []
  · subst h0; simp [PCtx.getChildCount, PTree.kids, pyEq, PyCmp.eq, expand]
  · have : ¬ ((f.length : Int) = 0) := by
      intro h; apply h0; exact List.length_eq_zero_iff.mp (by exact_mod_cast h)
    simp only [PCtx.getChildCount, PTree.kids, pyEq, PyCmp.eq, List.length_map, this, decide_false, Bool.false_eq_true, if_false,
      PCtx.children, List.map_map]
    rw [forIn_map_yield f _ _ (fun s p => .ok { s with _atoms := s._atoms ++ List.replicate (countOf p.2) (baseAttrs p.1) })]
    · rw [foldlM_ok _ _ _ _ (fun _ _ _ => rfl), fold]; rfl
    · rintro ⟨sym, cnt⟩ hp s
      have hsym := hs _ hp
      cases cnt with
      | none =>
        have := _add_atoms_ok env s sym 1 hsym
        simp only [Nat.cast_one] at this
        simp [elemTree, PCtx.getChild, PTree.kids, PCtx.getText, PTree.text, PCtx.getChildCount, pyGt, PyCmp.gt, POrd.lt, this,
          countOf]
      | some ds =>
        have hn := hc _ hp ds rfl
        have := _add_atoms_ok env s sym (num ds) hsym
        simp [elemTree, PCtx.getChild, PTree.kids, PCtx.getText, PCtx.getChildCount, pyGt, PyCmp.gt, POrd.lt, text_count,
          _to_int_ok env ds hn, this, PTree.text, PTree.textList, countOf]

end Contracts.Parser
