import Contracts.Parser
set_option autoImplicit false
open Py Tucan.parser
namespace Contracts.Parser

theorem mapM_ok {α β : Type} (xs : List α) (f : α → M β) (g : α → β) (h : ∀ x ∈ xs, f x = .ok (g x)) :
    xs.mapM f = .ok (xs.map g) := by
  induction xs with
  | nil => rfl
  | cons x xs ih =>
    rw [List.mapM_cons, h x (by simp), ih (fun y hy => h y (by simp [hy]))]
    rfl

def byZ (x y : Str) : Bool := decide (atomicNumber x ≤ atomicNumber y)

theorem baseAttrs_Z (s : Str) : (baseAttrs s).get? "atomic_number" = some (Val.int (atomicNumber s)) := by
  rfl

theorem sorted_atoms_ok (syms : List Str) :
    sortedByKeyM (syms.map baseAttrs) (fun a => (getItem a "atomic_number" : M Val)) =
      .ok ((syms.mergeSort byZ).map baseAttrs) := by
  unfold sortedByKeyM
  have hm : (syms.map baseAttrs).mapM (fun a => (getItem a "atomic_number" : M Val)) =
      .ok ((syms.map baseAttrs).map (fun a => (a.get? "atomic_number").getD Val.none)) := by
    apply mapM_ok
    intro a ha
    obtain ⟨s, _, rfl⟩ := List.mem_map.mp ha
    exact getItem_dict_ok _ _ _ (baseAttrs_Z s)
  rw [hm]
  simp only [ok_bind, pure_eq_ok, List.map_map]
  congr 1
  have hz : List.zip (syms.map ((fun a => (Dict.get? a "atomic_number").getD Val.none) ∘ baseAttrs)) (syms.map baseAttrs) =
      syms.map (fun s => (Val.int (atomicNumber s), baseAttrs s)) := by
    rw [List.zip_map']
    apply List.map_congr_left
    intro s _
    simp [baseAttrs_Z]
  rw [hz, ← List.map_mergeSort (r := byZ) (f := fun s => (Val.int (atomicNumber s), baseAttrs s))]
  · simp [List.map_map, Function.comp_def]
  · intro a _ b _
    simp only [byZ, POrd.lt, Val.lt, Sc.lt]
    by_cases h : atomicNumber a ≤ atomicNumber b
    · simp [h, Int.not_lt.mpr h]
    · simp [h, Int.not_le.mp h]

theorem listGet_ok {α : Type} (l : List α) (i : Int) (x : α) (h0 : 0 ≤ i) (h : l[i.toNat]? = some x) :
    (getItem l i : M α) = .ok x := by
  show listGet l i = _
  unfold listGet normIndex
  have : ¬ i < 0 := by omega
  simp [this, h]

theorem atoms_dict_ok (sorted : List Attrs) :
    listComp (range (pyLen sorted)) (fun i => do let x ← (getItem sorted i : M Attrs); pure (some (i, x))) =
      .ok ((range (sorted.length : Int)).map (fun i => (i, (sorted[i.toNat]?).getD Dict.empty))) := by
  rw [listComp_ok _ _ (fun i => some (i, (sorted[i.toNat]?).getD Dict.empty))]
  · simp [List.filterMap_eq_map']
  · intro i hi
    simp only [pyLen_list, mem_range] at hi
    have : i.toNat < sorted.length := by omega
    rw [listGet_ok sorted i sorted[i.toNat] hi.1 (by simp [this])]
    simp [this]


/-- attributes of atom `i` from the formula alone -/
def baseOf (syms : List Str) (i : Int) : Attrs := (((syms.mergeSort byZ).map baseAttrs)[i.toNat]?).getD Dict.empty
/-- ... joined with the listed attributes -/
def joined (syms : List Str) (D : Dict Int Attrs) (i : Int) : Attrs :=
  (baseOf syms i).update ((D.get? i).getD Dict.empty)

theorem to_graph_eq (env : DepEnv) (syms : List Str) (bonds : List (Int × Int)) (D : Dict Int Attrs)
    (hD : D.WF) (hD0 : ∀ i ∈ D.keys, 0 ≤ i) :
    TucanListenerImpl.to_graph env { _atoms := syms.map baseAttrs, _bonds := bonds, _node_attributes := D } =
      if (∀ b ∈ bonds, b.1 < syms.length ∧ b.2 < syms.length) ∧ (∀ p ∈ D.items, p.1 < (syms.length : Int)) then
        (Tucan.graph_utils.graph_from_molecule env (tab syms.length (joined syms D))
          (Dict.ofPairs (bonds.map (fun b => (b, (Dict.empty : Attrs))))) >>= fun r => .ok r.1)
      else .error TPE := by
  unfold TucanListenerImpl.to_graph
  simp only [pyIter_list]
  rw [forIn_check bonds _ (fun b => b.1 < (syms.length : Int) ∧ b.2 < (syms.length : Int)) TPE]
  swap
  · rintro ⟨i1, i2⟩ _
    simp only [_validate_atom_index_ok, List.length_map]
    by_cases h1 : i1 < (syms.length : Int) <;> by_cases h2 : i2 < (syms.length : Int) <;> simp [h1, h2]
  by_cases hb : ∀ b ∈ bonds, b.1 < (syms.length : Int) ∧ b.2 < (syms.length : Int)
  swap
  · rw [if_neg hb, if_neg (fun h => hb h.1)]; rfl
  rw [if_pos hb]
  have hT : Dict.ofPairs ((range (((syms.mergeSort byZ).map baseAttrs).length : Int)).map
      (fun i => (i, ((((syms.mergeSort byZ).map baseAttrs))[i.toNat]?).getD Dict.empty))) =
      tab syms.length (baseOf syms) := by
    rw [Dict.ofPairs_of_nodup _ (by simp only [List.map_map, Function.comp_def, List.map_id']; exact Graph.nodup_range _)]
    simp [tab, baseOf]
  have hB : listComp bonds (fun bond => (pure (some (bond, (Dict.empty : Attrs))) : M (Option ((Int × Int) × Attrs)))) =
      .ok (bonds.map (fun b => (b, (Dict.empty : Attrs)))) := by
    refine (listComp_ok _ _ (fun b => some (b, (Dict.empty : Attrs))) (fun _ _ => rfl)).trans ?_
    simp [List.filterMap_eq_map']
  simp only [ok_bind, sorted_atoms_ok, atoms_dict_ok, hT, hB]
  rw [forIn_tab syms.length D.items Prod.fst (fun p a => a.update p.2) _ (fun p => p.1 < (syms.length : Int)) TPE]
  · by_cases hd : ∀ p ∈ D.items, p.1 < (syms.length : Int)
    · rw [if_pos hd, if_pos ⟨hb, hd⟩]
      simp only [ok_bind]
      have hf : (D.items.foldl (fun h (x : Int × Attrs) => Function.update h x.1 ((h x.1).update x.2)) (baseOf syms)) =
          joined syms D := by
        funext i
        rw [foldl_update_nodup D.items Prod.fst (fun p a => a.update p.2) hD]
        have hl : D.get? i = assoc D.items i := (assoc_eq_lookup D.items i).symm
        unfold joined
        rw [hl]; unfold assoc
        cases D.items.find? (fun p => decide (p.1 = i)) with
        | none => rfl
        | some p => rfl
      rw [hf]; rfl
    · rw [if_neg hd, if_neg (fun h => hd h.2)]; rfl
  · rintro ⟨i, a⟩ hp h
    have h0 : 0 ≤ i := hD0 i (List.mem_map_of_mem (f := Prod.fst) hp)
    simp only [_validate_atom_index_ok, List.length_map]
    by_cases hi : i < (syms.length : Int)
    · have hr : i ∈ range (syms.length : Int) := (mem_range _ _).mpr ⟨h0, hi⟩
      have hg : (getItem (tab syms.length h) i : M Attrs) = .ok (h i) :=
        getItem_dict_ok _ _ _ (by show (tab syms.length h).get? i = _; rw [tab_get?, if_pos hr])
      simp [hi, hg]
    · simp [hi]
  · rintro ⟨i, a⟩ hp hi
    exact (mem_range _ _).mpr ⟨hD0 i (List.mem_map_of_mem (f := Prod.fst) hp), hi⟩

end Contracts.Parser
