import Contracts.Parser
set_option autoImplicit false
open Py Tucan.parser
namespace Contracts.Parser

theorem mapM_ok {α β : Type} (xs : List α) (f : α → M β) (g : α → β) (h : ∀ x ∈ xs, f x = .ok (g x)) :
    xs.mapM f = .ok (xs.map g) := by
  induction xs with
  | nil => rfl
  | cons x xs ih =>
    rw [List.mapM_cons, h x (by simp), ih (fun y hy => h y (by simp [hy]))]
    rfl

def byZ (x y : Str) : Bool := decide (atomicNumber x ≤ atomicNumber y)

theorem baseAttrs_Z (s : Str) : (baseAttrs s).get? "atomic_number" = some (Val.int (atomicNumber s)) := by
  rfl

theorem sorted_atoms_ok (syms : List Str) :
    sortedByKeyM (syms.map baseAttrs) (fun a => (getItem a "atomic_number" : M Val)) =
      .ok ((syms.mergeSort byZ).map baseAttrs) := by
  unfold sortedByKeyM
  have hm : (syms.map baseAttrs).mapM (fun a => (getItem a "atomic_number" : M Val)) =
      .ok ((syms.map baseAttrs).map (fun a => (a.get? "atomic_number").getD Val.none)) := by
    apply mapM_ok
    intro a ha
    obtain ⟨s, _, rfl⟩ := List.mem_map.mp ha
    exact getItem_dict_ok _ _ _ (baseAttrs_Z s)
  rw [hm]
  simp only [ok_bind, pure_eq_ok, List.map_map]
  congr 1
  have hz : List.zip (syms.map ((fun a => (Dict.get? a "atomic_number").getD Val.none) ∘ baseAttrs)) (syms.map baseAttrs) =
      syms.map (fun s => (Val.int (atomicNumber s), baseAttrs s)) := by
    rw [List.zip_map']
    apply List.map_congr_left
    intro s _
    simp [baseAttrs_Z]
  rw [hz, ← List.map_mergeSort (r := byZ) (f := fun s => (Val.int (atomicNumber s), baseAttrs s))]
  · simp [List.map_map, Function.comp_def]
  · intro a _ b _
    simp only [byZ, POrd.lt, Val.lt, Sc.lt]
    by_cases h : atomicNumber a ≤ atomicNumber b
    · simp [h, Int.not_lt.mpr h]
    · simp [h, Int.not_le.mp h]

theorem listGet_ok {α : Type} (l : List α) (i : Int) (x : α) (h0 : 0 ≤ i) (h : l[i.toNat]? = some x) :
    (getItem l i : M α) = .ok x := by
  show listGet l i = _
  unfold listGet normIndex
  have : ¬ i < 0 := by omega
  simp [this, h]

theorem atoms_dict_ok (sorted : List Attrs) :
    listComp (pyIter (range (pyLen sorted))) (fun i => do let x ← (getItem sorted i : M Attrs); pure (some (i, x))) =
      .ok ((range (sorted.length : Int)).map (fun i => (i, (sorted[i.toNat]?).getD Dict.empty))) := by
  rw [listComp_ok _ _ (fun i => some (i, (sorted[i.toNat]?).getD Dict.empty))]
  · simp [List.filterMap_eq_map']
  · intro i hi
    simp only [pyIter_list, pyLen_list, mem_range] at hi
    have : i.toNat < sorted.length := by omega
    rw [listGet_ok sorted i sorted[i.toNat] hi.1 (by simp [this])]
    simp [this]

end Contracts.Parser
