import Contracts.Parser
set_option autoImplicit false
open Py Tucan.parser
namespace Contracts.Parser

abbrev L := TucanListenerImpl

theorem dispatch_inert (env : DepEnv) (st : L) (r : String) (cs : List PTree) (par : Option PTree)
    (h : r ∉ otherRules) : TucanListenerImpl.dispatchEnter env st ⟨.node r cs, par⟩ = .ok st := by
  simp only [otherRules, List.mem_cons, List.not_mem_nil, or_false, not_or] at h
  unfold TucanListenerImpl.dispatchEnter
  simp only [PTree.rule]
  split <;> simp_all

mutual
def inert : PTree → Bool
  | .node r cs => decide (r ∉ otherRules) && inertList cs
  | .tok _ => true
def inertList : List PTree → Bool
  | [] => true
  | t :: ts => inert t && inertList ts
end

mutual
theorem walk_inert (env : DepEnv) (par : Option PTree) (t : PTree) (st : L) (h : inert t = true) :
    PTree.walk (TucanListenerImpl.dispatchEnter env) par t st = .ok st := by
  match t with
  | .tok _ => simp [PTree.walk]
  | .node r cs =>
    simp only [inert, Bool.and_eq_true, decide_eq_true_eq] at h
    simp only [PTree.walk, dispatch_inert env st r cs par h.1, ok_bind]
    exact walkList_inert env _ cs st h.2
theorem walkList_inert (env : DepEnv) (par : Option PTree) (ts : List PTree) (st : L) (h : inertList ts = true) :
    PTree.walkList (TucanListenerImpl.dispatchEnter env) par ts st = .ok st := by
  match ts with
  | [] => simp [PTree.walkList]
  | t :: ts =>
    simp only [inertList, Bool.and_eq_true] at h
    simp only [PTree.walkList, walk_inert env par t st h.1, ok_bind]
    exact walkList_inert env par ts st h.2
end

theorem walkList_append {σ : Type} (enter : σ → PCtx → M σ) (par : Option PTree) (l1 l2 : List PTree) (st : σ) :
    PTree.walkList enter par (l1 ++ l2) st = (PTree.walkList enter par l1 st >>= PTree.walkList enter par l2) := by
  induction l1 generalizing st with
  | nil => simp [PTree.walkList]
  | cons t ts ih =>
    simp only [List.cons_append, PTree.walkList]
    cases PTree.walk enter par t st with
    | error e => rfl
    | ok s => simp only [ok_bind]; exact ih s

theorem walkList_map {σ α : Type} (enter : σ → PCtx → M σ) (par : Option PTree) (xs : List α) (g : α → PTree)
    (step : σ → α → M σ) (st : σ) (h : ∀ x ∈ xs, ∀ s, PTree.walk enter par (g x) s = step s x) :
    PTree.walkList enter par (xs.map g) st = xs.foldlM step st := by
  induction xs generalizing st with
  | nil => simp [PTree.walkList]
  | cons x xs ih =>
    simp only [List.map_cons, PTree.walkList, List.foldlM_cons, h x (by simp)]
    cases step st x with
    | error e => rfl
    | ok s => simp only [ok_bind]; exact ih s (fun y hy => h y (by simp [hy]))


/-! ### the walk over `treeOf a` -/

theorem inert_gt0Tree (ds : Str) : inert (gt0Tree ds) = true := by
  unfold gt0Tree; split <;> simp [inert, inertList, gt1Tree, otherRules]
theorem inert_indexTree (ds : Str) : inert (indexTree ds) = true := by
  simp [indexTree, inert, inertList, inert_gt0Tree, otherRules]
theorem inert_elemTree (p : Str × Option Str) (h : p.1 ∈ periodicTable) : inert (elemTree p) = true := by
  have := elemRule_other p.1 h
  obtain ⟨sym, cnt⟩ := p
  cases cnt <;> simp_all [elemTree, inert, inertList, gt1Tree, otherRules]
theorem inertList_elems (f : List (Str × Option Str)) (h : ∀ p ∈ f, p.1 ∈ periodicTable) :
    inertList (f.map elemTree) = true := by
  induction f with
  | nil => rfl
  | cons p f ih =>
    simp [inertList, inert_elemTree p (h p (by simp)), ih (fun q hq => h q (by simp [hq]))]

theorem walk_formula (env : DepEnv) (par : Option PTree) (st : L) (f : List (Str × Option Str))
    (hs : ∀ p ∈ f, p.1 ∈ periodicTable) (hc : ∀ p ∈ f, ∀ ds, p.2 = some ds → NumWf ds) :
    PTree.walk (TucanListenerImpl.dispatchEnter env) par (formulaTree f) st =
      .ok { st with _atoms := st._atoms ++ (expand f).map baseAttrs } := by
  unfold formulaTree
  rw [PTree.walk, dispatch_inert env st _ _ _ (by decide)]
  simp only [ok_bind, PTree.walkList, PTree.walk]
  have hd : ∀ p, TucanListenerImpl.dispatchEnter env st
      ⟨.node (if f.head?.map Prod.fst = some py!"C" then "with_carbon" else "without_carbon") (f.map elemTree), p⟩ =
      .ok { st with _atoms := st._atoms ++ (expand f).map baseAttrs } := by
    intro p
    split
    · simp [TucanListenerImpl.dispatchEnter, PTree.rule, TucanListenerImpl.enterWith_carbon, _parse_sum_formula_ok env st _ _ f hs hc]
    · simp [TucanListenerImpl.dispatchEnter, PTree.rule, TucanListenerImpl.enterWithout_carbon, _parse_sum_formula_ok env st _ _ f hs hc]
  rw [hd]
  simp only [ok_bind, walkList_inert env _ _ _ (inertList_elems f hs)]
  rfl

def tupleStep (st : L) (t : Str × Str) : M L :=
  if num t.1 = num t.2 then .error TPE
  else .ok { st with _bonds := st._bonds ++ [((num t.1 : Int) - 1, (num t.2 : Int) - 1)] }

theorem walk_tuple (env : DepEnv) (par : Option PTree) (st : L) (t : Str × Str) (h1 : NumWf t.1) (h2 : NumWf t.2) :
    PTree.walk (TucanListenerImpl.dispatchEnter env) par (tupleTree t) st = tupleStep st t := by
  have hd : TucanListenerImpl.dispatchEnter env st ⟨tupleTree t, par⟩ = tupleStep st t := by
    unfold tupleStep
    rw [← enterTuple_ok env st t par h1 h2]
    simp [TucanListenerImpl.dispatchEnter, tupleTree, PTree.rule]
  have hi : inertList [.tok py!"(", indexTree t.1, .tok py!"-", indexTree t.2, .tok py!")"] = true := by
    simp [inertList, inert, inert_indexTree]
  show PTree.walk _ par (.node "tuple" _) st = _
  rw [PTree.walk]
  change (TucanListenerImpl.dispatchEnter env st ⟨tupleTree t, par⟩ >>= _) = _
  rw [hd]
  cases tupleStep st t with
  | error e => rfl
  | ok s => simp only [ok_bind]; exact walkList_inert env _ _ s hi

def propStep (idx : Str) (st : L) (kv : Key × Str) : M L :=
  addAttr st._node_attributes ((num idx : Int) - 1) kv.1 (num kv.2) >>= fun d => .ok { st with _node_attributes := d }

theorem walk_prop (env : DepEnv) (st : L) (b : Str × List (Key × Str)) (kv : Key × Str)
    (h1 : NumWf b.1) (h2 : NumWf kv.2) :
    PTree.walk (TucanListenerImpl.dispatchEnter env) (some (attrTree b)) (propTree kv) st = propStep b.1 st kv := by
  have hd : TucanListenerImpl.dispatchEnter env st ⟨propTree kv, some (attrTree b)⟩ = propStep b.1 st kv := by
    unfold propStep
    rw [← enterNode_property_ok env st b kv h1 h2]
    simp [TucanListenerImpl.dispatchEnter, propTree, PTree.rule]
  have hi : inertList [.node "node_property_key" [.tok kv.1.text], .tok py!"=", .node "node_property_value" [gt0Tree kv.2]] = true := by
    simp [inertList, inert, inert_gt0Tree, otherRules]
  show PTree.walk _ _ (.node "node_property" _) st = _
  rw [PTree.walk]
  change (TucanListenerImpl.dispatchEnter env st ⟨propTree kv, some (attrTree b)⟩ >>= _) = _
  rw [hd]
  cases propStep b.1 st kv with
  | error e => rfl
  | ok s => simp only [ok_bind]; exact walkList_inert env _ _ s hi

def blockStep (st : L) (b : Str × List (Key × Str)) : M L := b.2.foldlM (propStep b.1) st

theorem walkList_sepProps (env : DepEnv) (st : L) (b : Str × List (Key × Str)) (kvs : List (Key × Str))
    (h1 : NumWf b.1) (h2 : ∀ kv ∈ kvs, NumWf kv.2) :
    PTree.walkList (TucanListenerImpl.dispatchEnter env) (some (attrTree b)) (sepProps kvs) st =
      kvs.foldlM (propStep b.1) st := by
  have tail : ∀ (kvs : List (Key × Str)) (st : L), (∀ kv ∈ kvs, NumWf kv.2) →
      PTree.walkList (TucanListenerImpl.dispatchEnter env) (some (attrTree b))
        (kvs.flatMap (fun kv => [.tok py!",", propTree kv])) st = kvs.foldlM (propStep b.1) st := by
    intro kvs
    induction kvs with
    | nil => intro st _; simp [PTree.walkList]
    | cons kv kvs ih =>
      intro st h
      simp only [List.flatMap_cons, List.cons_append, List.nil_append, PTree.walkList, PTree.walk, ok_bind, pure_eq_ok,
        walk_prop env st b kv h1 (h kv (by simp)), List.foldlM_cons]
      cases propStep b.1 st kv with
      | error e => rfl
      | ok s => simp only [ok_bind]; exact ih s (fun q hq => h q (by simp [hq]))
  cases kvs with
  | nil => simp [sepProps, PTree.walkList]
  | cons kv kvs =>
    simp only [sepProps, PTree.walkList, walk_prop env st b kv h1 (h2 kv (by simp)), List.foldlM_cons]
    cases propStep b.1 st kv with
    | error e => rfl
    | ok s => simp only [ok_bind]; exact tail kvs s (fun q hq => h2 q (by simp [hq]))

theorem walk_attr (env : DepEnv) (par : Option PTree) (st : L) (b : Str × List (Key × Str))
    (h1 : NumWf b.1) (h2 : ∀ kv ∈ b.2, NumWf kv.2) :
    PTree.walk (TucanListenerImpl.dispatchEnter env) par (attrTree b) st = blockStep st b := by
  show PTree.walk _ par (.node "node_attribute" _) st = _
  rw [PTree.walk, dispatch_inert env st _ _ _ (by decide)]
  simp only [ok_bind, pure_eq_ok, List.cons_append, List.nil_append, PTree.walkList, PTree.walk, walk_inert env _ _ _ (inert_indexTree b.1)]
  rw [walkList_append]
  change (PTree.walkList _ (some (attrTree b)) _ _ >>= _) = _
  rw [walkList_sepProps env st b b.2 h1 h2]
  unfold blockStep
  cases List.foldlM (propStep b.1) st b.2 with
  | error e => rfl
  | ok s => simp [PTree.walkList, PTree.walk]

/-- the listener state after the walk, as a fold over the abstract syntax -/
def walkSpec (a : Ast) : M L := do
  let st1 : L := { _atoms := (expand a.formula).map baseAttrs }
  let st2 ← a.tuples.foldlM tupleStep st1
  a.blocks.foldlM blockStep st2

theorem walk_treeOf (env : DepEnv) (a : Ast) (hs : ∀ p ∈ a.formula, p.1 ∈ periodicTable) (h : a.Wf) :
    PTree.walk (TucanListenerImpl.dispatchEnter env) Option.none (treeOf a) {} = walkSpec a := by
  have d1 := fun st par cs => dispatch_inert env st "tucan" cs par (by decide)
  have d2 := fun st par cs => dispatch_inert env st "tuples" cs par (by decide)
  have d3 := fun st par cs => dispatch_inert env st "node_attributes" cs par (by decide)
  have wt := fun par st => walkList_map (TucanListenerImpl.dispatchEnter env) par a.tuples tupleTree tupleStep st
    (fun t ht s => walk_tuple env _ s t (h.tuples t ht).1 (h.tuples t ht).2)
  unfold treeOf walkSpec Ast.blocks
  simp only [d1, d2, ok_bind, pure_eq_ok, List.cons_append, List.nil_append, PTree.walkList, PTree.walk,
    walk_formula env _ _ a.formula hs (fun p hp ds hds => (h.counts p hp ds hds).1), wt]
  cases List.foldlM tupleStep _ a.tuples with
  | error e => rfl
  | ok s =>
    simp only [ok_bind]
    cases ha : a.attrs with
    | none => simp [PTree.walkList, PTree.walk]
    | some bs =>
      have wa := fun par st => walkList_map (TucanListenerImpl.dispatchEnter env) par bs attrTree blockStep st
        (fun b hb s => walk_attr env _ s b (h.attrs bs ha b hb).1 (h.attrs bs ha b hb).2)
      simp only [List.cons_append, List.nil_append, PTree.walkList, PTree.walk, ok_bind, pure_eq_ok, d3, wa,
        Option.getD_some]
      cases List.foldlM blockStep s bs <;> rfl

end Contracts.Parser
