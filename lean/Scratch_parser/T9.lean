import Contracts.Parser
set_option autoImplicit false
open Py Tucan.parser
namespace Contracts.Parser

/-! ### `to_graph` -/

theorem _validate_atom_index_ok (env : DepEnv) (st : L) (idx : Int) :
    TucanListenerImpl._validate_atom_index env st idx =
      if idx < st._atoms.length then .ok () else .error TPE := by
  unfold TucanListenerImpl._validate_atom_index
  by_cases h : idx < st._atoms.length
  · simp [pyGe, PyCmp.lt, POrd.lt, h]
  · simp [pyGe, PyCmp.lt, POrd.lt, h, TPE]

/-- a checking loop -/
theorem forIn_check {α : Type} (xs : List α) (body : α → PUnit → M (ForInStep PUnit)) (good : α → Prop)
    [DecidablePred good] (e : Err)
    (h : ∀ x ∈ xs, body x PUnit.unit = if good x then .ok (ForInStep.yield PUnit.unit) else .error e) :
    forIn xs PUnit.unit body = if ∀ x ∈ xs, good x then .ok PUnit.unit else .error e := by
  induction xs with
  | nil => simp
  | cons x xs ih =>
    simp only [List.forIn_cons, h x (by simp)]
    by_cases hx : good x
    · simp only [hx, if_true, ok_bind, ih (fun y hy => h y (by simp [hy]))]
      simp [hx]
    · simp [hx]

/-- the dict `{i: h i for i in range(n)}` -/
def tab (n : Nat) (h : Int → Attrs) : Dict Int Attrs := ⟨(range n).map (fun i => (i, h i))⟩

theorem mem_range (n : Nat) (i : Int) : i ∈ range (n : Int) ↔ 0 ≤ i ∧ i < n := by
  simp only [range, Int.toNat_natCast, List.mem_map, List.mem_range]
  constructor
  · rintro ⟨a, ha, rfl⟩; simp; omega
  · rintro ⟨h0, h1⟩; exact ⟨i.toNat, by omega, by simp; omega⟩

theorem tab_keys (n : Nat) (h : Int → Attrs) : (tab n h).keys = range n := by
  simp [tab, Dict.keys, List.map_map, Function.comp_def]
theorem tab_wf (n : Nat) (h : Int → Attrs) : (tab n h).WF := by
  unfold Dict.WF; rw [tab_keys]; exact Graph.nodup_range _
theorem tab_get? (n : Nat) (h : Int → Attrs) (i : Int) :
    (tab n h).get? i = if i ∈ range (n : Int) then some (h i) else none := by
  split
  · rename_i hi
    apply Dict.get?_of_mem_items (tab_wf n h)
    simp only [tab, List.mem_map]; exact ⟨i, hi, rfl⟩
  · rename_i hi
    rw [Dict.get?_eq_none_iff, tab_keys]; exact hi
theorem tab_set (n : Nat) (h : Int → Attrs) (i : Int) (v : Attrs) (hi : i ∈ range (n : Int)) :
    (tab n h).set i v = tab n (Function.update h i v) := by
  apply Dict.ext_keys_get? (Dict.WF_set (tab_wf n h) _ _)
  · rw [Dict.keys_set_of_mem _ _ (by rw [tab_keys]; exact hi), tab_keys, tab_keys]
  · intro k
    rw [Dict.get?_set, tab_get?, tab_get?]
    by_cases hk : k = i
    · subst hk; simp [hi]
    · simp [hk]

/-- a loop that rewrites one entry of a `tab` per iteration, possibly rejecting -/
theorem forIn_tab {α : Type} (n : Nat) (l : List α) (key : α → Int) (G : α → Attrs → Attrs)
    (body : α → Dict Int Attrs → M (ForInStep (Dict Int Attrs))) (good : α → Prop) [DecidablePred good] (e : Err)
    (hbody : ∀ x ∈ l, ∀ h, body x (tab n h) =
      if good x then .ok (ForInStep.yield ((tab n h).set (key x) (G x (h (key x))))) else .error e)
    (hk : ∀ x ∈ l, good x → key x ∈ range (n : Int)) (h : Int → Attrs) :
    forIn l (tab n h) body =
      if ∀ x ∈ l, good x then
        .ok (tab n (l.foldl (fun h x => Function.update h (key x) (G x (h (key x)))) h))
      else .error e := by
  induction l generalizing h with
  | nil => simp
  | cons x l ih =>
    simp only [List.forIn_cons, hbody x (by simp)]
    by_cases hx : good x
    · simp only [hx, if_true, ok_bind, tab_set n h _ _ (hk x (by simp) hx)]
      rw [ih (fun y hy => hbody y (by simp [hy])) (fun y hy => hk y (by simp [hy]))]
      simp [hx]
    · simp [hx]

theorem foldl_update_nodup {α : Type} (l : List α) (key : α → Int) (G : α → Attrs → Attrs)
    (hn : (l.map key).Nodup) (h : Int → Attrs) (i : Int) :
    (l.foldl (fun h x => Function.update h (key x) (G x (h (key x)))) h) i =
      match l.find? (fun x => key x = i) with
      | some x => G x (h i)
      | none => h i := by
  induction l generalizing h with
  | nil => rfl
  | cons x l ih =>
    simp only [List.map_cons, List.nodup_cons] at hn
    rw [List.foldl_cons, ih hn.2]
    by_cases hx : key x = i
    · subst hx
      have : l.find? (fun y => key y = key x) = none := by
        rw [List.find?_eq_none]; intro y hy; simp; intro he; exact hn.1 (he ▸ List.mem_map_of_mem hy)
      simp [this]
    · simp only [List.find?_cons, hx, decide_false]
      cases l.find? (fun y => key y = i) with
      | none => simp [Function.update, Ne.symm hx]
      | some y => simp [Function.update, Ne.symm hx]

end Contracts.Parser
