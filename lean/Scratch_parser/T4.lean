import Contracts.Parser
set_option autoImplicit false
open Py Tucan.parser
namespace Contracts.Parser

theorem keys_eq_table : Tucan.Consts.ELEMENT_ATTRS.keys = periodicTable := by decide

set_option maxRecDepth 100000 in
theorem table_ok : ∀ s ∈ periodicTable,
    (Tucan.Consts.ELEMENT_ATTRS.get? s).bind (·.get? "atomic_number") = some (Val.int (atomicNumber s)) := by
  decide

def otherRules : List String := ["with_carbon", "without_carbon", "tuple", "node_property"]

set_option maxRecDepth 100000 in
theorem elemRule_other : ∀ s ∈ periodicTable, elemRule s ∉ ["with_carbon", "without_carbon", "tuple", "node_property"] := by
  decide

theorem getItem_dict_ok {κ ν K : Type} [DecidableEq κ] [ToKey K κ] (d : Dict κ ν) (k : K) (v : ν)
    (h : d.get? (toKey k) = some v) : getItem d k = .ok v := by
  show (match d.get? (toKey k) with | some v => pure v | Option.none => throw Err.key) = _
  rw [h]; rfl

/-- the attribute dict the listener creates for an atom of element `sym` -/
def baseAttrs (sym : Str) : Attrs :=
  ⟨[("element_symbol", Val.str sym), ("atomic_number", Val.int (atomicNumber sym)), ("partition", Val.int 0)]⟩

theorem _add_atoms_ok (env : DepEnv) (st : TucanListenerImpl) (sym : Str) (n : Nat) (h : sym ∈ periodicTable) :
    TucanListenerImpl._add_atoms env st sym (n : Int) =
      .ok { st with _atoms := st._atoms ++ List.replicate n (baseAttrs sym) } := by
  have ht := table_ok sym h
  obtain ⟨ea, h1, h2⟩ := Option.bind_eq_some_iff.mp ht
  have g1 : getItem Tucan.Consts.ELEMENT_ATTRS sym = .ok ea := getItem_dict_ok _ _ _ h1
  have g2 : getItem ea "atomic_number" = .ok (Val.int (atomicNumber sym)) := getItem_dict_ok _ _ _ h2
  have hl : listComp (pyIter (range (n : Int))) (fun _ => (pure (some (baseAttrs sym)) : M (Option Attrs))) =
      .ok (List.replicate n (baseAttrs sym)) := by
    refine (listComp_ok _ _ (fun _ => some (baseAttrs sym)) (fun _ _ => rfl)).trans ?_
    simp [range, List.filterMap_eq_map, List.map_const']
  unfold TucanListenerImpl._add_atoms
  simp only [g1, g2, ok_bind]
  have hb : (Dict.ofPairs [("element_symbol", toVal sym), ("atomic_number", toVal (Val.int (atomicNumber sym))), ("partition", toVal (0 : Int))] : Attrs) = baseAttrs sym := by
    rfl
  rw [hb]
  simp only [pure_eq_ok] at hl ⊢
  rw [hl]
  rfl

theorem _add_bond_ok (env : DepEnv) (st : TucanListenerImpl) (i j : Int) :
    TucanListenerImpl._add_bond env st i j = .ok { st with _bonds := st._bonds ++ [(i - 1, j - 1)] } := rfl

end Contracts.Parser
