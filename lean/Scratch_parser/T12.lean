import Contracts.Parser
set_option autoImplicit false
open Py Tucan.parser
namespace Contracts.Parser

/-! ### assembling the main theorem -/

theorem wf_syms (a : Ast) (h : a.Wf) : ∀ p ∈ a.formula, p.1 ∈ periodicTable :=
  fun p hp => keys_eq_table ▸ h.syms p hp

theorem settings_pos (a : Ast) (h : a.Wf) : ∀ s ∈ a.settings, 1 ≤ s.1.1 := by
  intro s hs
  simp only [Ast.settings, Ast.blocks, List.mem_flatMap, List.mem_map] at hs
  obtain ⟨b, hb, kv, _, rfl⟩ := hs
  cases ha : a.attrs with
  | none => simp [ha] at hb
  | some bs =>
    simp only [ha, Option.getD_some] at hb
    exact num_pos _ (h.attrs bs ha b hb).1

theorem bonds1_pos (a : Ast) (h : a.Wf) : ∀ b ∈ a.bonds1, 1 ≤ b.1 ∧ 1 ≤ b.2 := by
  intro b hb
  simp only [Ast.bonds1, List.mem_map] at hb
  obtain ⟨t, ht, rfl⟩ := hb
  exact ⟨num_pos _ (h.tuples t ht).1, num_pos _ (h.tuples t ht).2⟩

theorem bondsOf_eq (a : Ast) : bondsOf a.tuples = a.bonds1.map (fun b => ((b.1 : Int) - 1, (b.2 : Int) - 1)) := by
  simp [bondsOf, Ast.bonds1, List.map_map, Function.comp_def]

theorem assoc_map_inj {κ κ' ν ν' : Type} [DecidableEq κ] [DecidableEq κ'] (l : List (κ × ν)) (f : κ → κ')
    (g : ν → ν') (hf : Function.Injective f) (k : κ) :
    assoc (l.map (fun s => (f s.1, g s.2))) (f k) = (assoc l k).map g := by
  induction l with
  | nil => rfl
  | cons p l ih =>
    unfold assoc at ih ⊢
    simp only [List.map_cons, List.find?_cons]
    by_cases hp : p.1 = k
    · simp [hp]
    · have : f p.1 ≠ f k := fun e => hp (hf e)
      simp only [hp, this, decide_false]
      exact ih

theorem sorted_length (a : Ast) : (sortedSyms a).length = (expand a.formula).length := by
  simp [sortedSyms, List.length_mergeSort]

theorem index_cond (a : Ast) (h : a.Wf) (D : Dict Int Attrs) (hinv : AttrInv D (settings0 a.blocks)) :
    ((∀ b ∈ bondsOf a.tuples, b.1 < ((expand a.formula).length : Int) ∧ b.2 < ((expand a.formula).length : Int)) ∧
      (∀ p ∈ D.items, p.1 < ((expand a.formula).length : Int))) ↔ ¬ a.BadIndex := by
  unfold Ast.BadIndex
  rw [sorted_length, bondsOf_eq]
  have hk : (∀ p ∈ D.items, p.1 < ((expand a.formula).length : Int)) ↔
      ∀ s ∈ a.settings, ¬ (expand a.formula).length < s.1.1 := by
    constructor
    · intro hp s hs
      have hmem : ((s.1.1 : Int) - 1) ∈ D.keys := by
        rw [hinv.keys, settings0_eq]
        exact ⟨_, List.mem_map.mpr ⟨s, hs, rfl⟩, rfl⟩
      obtain ⟨p, hp', he⟩ := List.mem_map.mp hmem
      have := hp p hp'
      rw [he] at this
      omega
    · intro hs p hp
      have hmem : p.1 ∈ D.keys := List.mem_map_of_mem (f := Prod.fst) hp
      rw [hinv.keys, settings0_eq] at hmem
      obtain ⟨s0, hs0, he⟩ := hmem
      obtain ⟨s, hs', rfl⟩ := List.mem_map.mp hs0
      have := hs s hs'
      simp only [shift] at he
      omega
  rw [hk]
  simp only [List.mem_map, forall_exists_index, and_imp, forall_apply_eq_imp_iff₂, not_or, not_exists, not_and]
  constructor
  · rintro ⟨h1, h2⟩
    exact ⟨fun b hb => by have := h1 b hb; omega, h2⟩
  · rintro ⟨h1, h2⟩
    exact ⟨fun b hb => by have := h1 b hb; omega, h2⟩


theorem sortedSyms_eq (a : Ast) : sortedSyms a = (expand a.formula).mergeSort byZ := rfl

theorem baseAttrs_wf (s : Str) : (baseAttrs s).WF := by
  simp [Dict.WF, baseAttrs, Dict.keys]

theorem not_key_attr (s : String) (hs : s ∉ ["mass", "rad"]) : ¬ ∃ k : Key, s = k.attr := by
  rintro ⟨k, rfl⟩; cases k <;> simp [Key.attr] at hs

theorem joined_get (a : Ast) (D : Dict Int Attrs) (hinv : AttrInv D (settings0 a.blocks)) (i : Nat)
    (hi : i < (sortedSyms a).length) :
    (joined (expand a.formula) D i).WF ∧
    (joined (expand a.formula) D i).get? "element_symbol" = some (Val.str (sortedSyms a)[i]) ∧
    (joined (expand a.formula) D i).get? "atomic_number" = some (Val.int (atomicNumber (sortedSyms a)[i])) ∧
    (joined (expand a.formula) D i).get? "partition" = some (Val.int 0) ∧
    (∀ k : Key, (joined (expand a.formula) D i).get? k.attr =
      ((assoc a.settings (i + 1, k)).map Int.ofNat).map Val.int) ∧
    (∀ k, (joined (expand a.formula) D i).get? k ≠ none →
      k ∈ ["element_symbol", "atomic_number", "partition", "mass", "rad"]) := by
  have hb : baseOf (expand a.formula) (i : Int) = baseAttrs (sortedSyms a)[i] := by
    have hi' : i < ((expand a.formula).mergeSort byZ).length := by rw [← sortedSyms_eq]; exact hi
    simp [baseOf, sortedSyms_eq, List.getElem?_eq_getElem hi']
  have hdwf : ((D.get? (i : Int)).getD Dict.empty).WF := by
    cases h : D.get? (i : Int) with
    | none => simp
    | some d => exact hinv.vwf _ d h
  have hdget : ∀ s, ((D.get? (i : Int)).getD (Dict.empty : Attrs)).get? s = (D.get? (i : Int)).bind (·.get? s) := by
    intro s; cases D.get? (i : Int) <;> simp
  have hdonly : ∀ s, ((D.get? (i : Int)).getD (Dict.empty : Attrs)).get? s ≠ none → ∃ k : Key, s = k.attr := by
    intro s hs
    cases h : D.get? (i : Int) with
    | none => simp [h] at hs
    | some d => rw [h] at hs; exact hinv.onlyKeys _ d s h hs
  have hdnone : ∀ s, s ∉ ["mass", "rad"] → ((D.get? (i : Int)).getD (Dict.empty : Attrs)).get? s = none := by
    intro s hs
    by_contra hne
    exact not_key_attr s hs (hdonly s hne)
  have hj : ∀ k, (joined (expand a.formula) D i).get? k =
      (((D.get? (i : Int)).getD (Dict.empty : Attrs)).get? k).or ((baseAttrs (sortedSyms a)[i]).get? k) := by
    intro k
    unfold joined
    rw [Dict.get?_update _ hdwf, hb]
  refine ⟨?_, ?_, ?_, ?_, ?_, ?_⟩
  · unfold joined; rw [hb]; exact Dict.WF_update (baseAttrs_wf _) _
  · rw [hj, hdnone _ (by decide)]; rfl
  · rw [hj, hdnone _ (by decide)]; rfl
  · rw [hj, hdnone _ (by decide)]; rfl
  · intro k
    rw [hj, hdget, hinv.get, settings0_eq]
    have e : ((i : Int), k) = shift (i + 1, k) := by simp [shift]
    rw [e, assoc_map_inj a.settings shift (fun (n : Nat) => (n : Int)) shift_inj]
    have hbn : (baseAttrs (sortedSyms a)[i]).get? k.attr = none := by cases k <;> rfl
    rw [hbn, Option.or_none]
    cases assoc a.settings (i + 1, k) <;> rfl
  · intro k hk
    rw [hj] at hk
    cases hd : ((D.get? (i : Int)).getD (Dict.empty : Attrs)).get? k with
    | some v =>
      obtain ⟨key, rfl⟩ := hdonly k (by simp [hd])
      cases key <;> simp [Key.attr]
    | none =>
      rw [hd, Option.none_or] at hk
      have : k ∈ (baseAttrs (sortedSyms a)[i]).keys := by
        rw [← Dict.get?_isSome_iff]; cases h : (baseAttrs (sortedSyms a)[i]).get? k with
        | none => exact absurd h hk
        | some _ => rfl
      simp only [baseAttrs, Dict.keys, List.map_cons, List.map_nil] at this
      simp only [List.mem_cons, List.not_mem_nil, or_false] at this ⊢
      tauto

theorem withCode_get (J : Attrs) (k : String) :
    (withCode J).get? k = if k = "invariant_code" then some (codeOf J) else J.get? k := by
  unfold withCode
  have hw : (Dict.ofPairs [("invariant_code", codeOf J)] : Attrs) = ⟨[("invariant_code", codeOf J)]⟩ := rfl
  rw [Dict.get?_update _ (by rw [hw]; simp [Dict.WF, Dict.keys]), hw]
  simp only [Dict.get?_mk, lookup_cons', List.lookup_nil]
  split <;> simp


theorem codeOf_eq (J : Attrs) (z : Int) (m r : Option Int) (hz : J.get? "atomic_number" = some (Val.int z))
    (hm : J.get? "mass" = m.map Val.int) (hr : J.get? "rad" = r.map Val.int) :
    codeOf J = Val.tup [.int z, .int (m.getD 0), .int (r.getD 0)] := by
  unfold codeOf Dict.getD
  rw [hz, hm, hr]
  cases m <;> cases r <;> rfl

/-- **C10, semantic half.** The listener run over the parse tree of a grammatical string returns the
denoted molecule, or rejects with `TucanParserException` exactly when the denotation does. -/
theorem graph_from_tree_ok (env : DepEnv) (a : Ast) (h : a.Wf) :
    match denote a with
    | .ok mol => ∃ g, graph_from_tree env (treeOf a) = .ok g ∧ Represents g mol
    | .error e => graph_from_tree env (treeOf a) = .error e := by
  have hgt : graph_from_tree env (treeOf a) = (walkSpec a >>= TucanListenerImpl.to_graph env) := by
    unfold graph_from_tree
    rw [walk_treeOf env a (wf_syms a h) h]
  unfold denote
  by_cases hsd : a.SelfBond ∨ a.DupAttr
  · rw [if_pos (Or.inr hsd)]
    show graph_from_tree env (treeOf a) = .error TPE
    rw [hgt, walkSpec_error a hsd]; rfl
  · rw [not_or] at hsd
    obtain ⟨D, hw, hinv⟩ := walkSpec_ok a hsd.1 hsd.2
    have hD0 : ∀ i ∈ D.keys, 0 ≤ i := by
      intro i hi
      rw [hinv.keys, settings0_eq] at hi
      obtain ⟨s0, hs0, rfl⟩ := hi
      obtain ⟨s, hs, rfl⟩ := List.mem_map.mp hs0
      have := settings_pos a h s hs
      simp only [shift]; omega
    have htg := to_graph_eq env (expand a.formula) (bondsOf a.tuples) D hinv.wf hD0
    by_cases hbi : a.BadIndex
    · rw [if_pos (Or.inl hbi)]
      show graph_from_tree env (treeOf a) = .error TPE
      rw [hgt, hw]
      simp only [ok_bind]
      rw [htg, if_neg (fun hc => (index_cond a h D hinv).mp hc hbi)]
    · rw [if_neg (not_or.mpr ⟨hbi, not_or.mpr hsd⟩)]
      have hidx := (index_cond a h D hinv).mpr hbi
      have hlen := sorted_length a
      have hA : ∀ i ∈ range ((expand a.formula).length : Int), (joined (expand a.formula) D i).WF := by
        intro i hi
        rw [mem_range] at hi
        obtain ⟨k, rfl⟩ := Int.eq_ofNat_of_zero_le hi.1
        exact (joined_get a D hinv k (by rw [hlen]; exact_mod_cast hi.2)).1
      have hz : ∀ i ∈ range ((expand a.formula).length : Int),
          ∃ z, (joined (expand a.formula) D i).get? "atomic_number" = some z := by
        intro i hi
        rw [mem_range] at hi
        obtain ⟨k, rfl⟩ := Int.eq_ofNat_of_zero_le hi.1
        exact ⟨_, (joined_get a D hinv k (by rw [hlen]; exact_mod_cast hi.2)).2.2.1⟩
      have hb : ∀ b ∈ bondsOf a.tuples, b.1 ∈ range ((expand a.formula).length : Int) ∧
          b.2 ∈ range ((expand a.formula).length : Int) := by
        intro b hb
        have hlt := hidx.1 b hb
        rw [bondsOf_eq] at hb
        obtain ⟨b1, hb1, rfl⟩ := List.mem_map.mp hb
        have := bonds1_pos a h b1 hb1
        simp only [mem_range] at hlt ⊢
        omega
      obtain ⟨g, R, hgm, hwf, hnl, hnode, hnb⟩ :=
        graph_from_molecule_ok env (expand a.formula).length (joined (expand a.formula) D) (bondsOf a.tuples) hA hz hb
      refine ⟨g, ?_, ?_⟩
      · rw [hgt, hw]
        simp only [ok_bind]
        rw [htg, if_pos hidx, hgm]; rfl
      · have hal : ∀ l : List Str, (l.zipIdx.map (fun si =>
            ({ symbol := si.1, z := atomicNumber si.1,
               mass := (assoc a.settings (si.2 + 1, Key.mass)).map Int.ofNat,
               rad := (assoc a.settings (si.2 + 1, Key.rad)).map Int.ofNat } : Atom))).length = l.length := by
          intro l; simp
        refine ⟨?_, ?_, ?_, ?_, hwf⟩
        · simp only [hal, hnl, hlen]
        · intro i hi
          simp only [hal] at hi
          obtain ⟨jw, j1, j2, j3, j4, j5⟩ := joined_get a D hinv i hi
          have hir : (i : Int) ∈ range ((expand a.formula).length : Int) := by
            rw [mem_range]; rw [hlen] at hi; omega
          have hattr : ∀ k, g.attr i k = (withCode (joined (expand a.formula) D i)).get? k := by
            intro k; unfold Graph.attr; rw [hnode _ hir]; rfl
          have hm := j4 Key.mass
          have hr := j4 Key.rad
          simp only [Key.attr] at hm hr
          simp only [hattr, withCode_get, List.getElem_map, List.getElem_zipIdx, zero_add]
          refine ⟨by simpa using j1, by simpa using j2, by simpa using j3, by simpa using hm, by simpa using hr, ?_⟩
          simp only [if_true]
          rw [codeOf_eq _ _ _ _ j2 hm hr]
        · intro i k hk
          unfold Graph.attr at hk
          by_cases hir : i ∈ range ((expand a.formula).length : Int)
          · rw [hnode _ hir] at hk
            simp only [Option.bind_some, withCode_get] at hk
            rw [mem_range] at hir
            obtain ⟨j, rfl⟩ := Int.eq_ofNat_of_zero_le hir.1
            have hj : j < (sortedSyms a).length := by rw [hlen]; exact_mod_cast hir.2
            by_cases hkc : k = "invariant_code"
            · subst hkc; decide
            · rw [if_neg hkc] at hk
              have := (joined_get a D hinv j hj).2.2.2.2.2 k hk
              simp only [attrNames, List.mem_cons, List.not_mem_nil, or_false] at this ⊢
              tauto
          · have : g.node.get? i = none := by
              rw [Dict.get?_eq_none_iff]; show i ∉ g.nodeList; rw [hnl]; exact hir
            rw [this] at hk; exact absurd rfl hk
        · intro i j
          rw [hnb, bondsOf_eq]
          unfold AbstractMol.Bonded
          simp only [List.mem_map, Prod.mk.injEq, exists_exists_and_eq_and]
          constructor
          · rintro (⟨b, hb, h1, h2⟩ | ⟨b, hb, h1, h2⟩)
            · have := bonds1_pos a h b hb
              exact ⟨b, hb, Or.inl ⟨by omega, by omega⟩⟩
            · have := bonds1_pos a h b hb
              exact ⟨b, hb, Or.inr ⟨by omega, by omega⟩⟩
          · rintro ⟨b, hb, (⟨h1, h2⟩ | ⟨h1, h2⟩)⟩
            · have := bonds1_pos a h b hb
              exact Or.inl ⟨b, hb, by omega, by omega⟩
            · have := bonds1_pos a h b hb
              exact Or.inr ⟨b, hb, by omega, by omega⟩


#print axioms graph_from_tree_ok
#print axioms int_total
end Contracts.Parser
