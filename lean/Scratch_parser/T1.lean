import Generated.Parser
import Spec.GraphView
set_option autoImplicit false
open Py

example : ("tuple" : String) ≠ "node_property" := by decide
example : String.ofList ['c','l'] ≠ "tuple" := by decide
#check @String.ofList
#check @List.map_mergeSort
#check @List.mergeSort_eq_insertionSort
#print Tucan.parser._to_int
theorem t (env : DepEnv) (s : Str) (v : Int) (h : parseInt s = .ok v) : Tucan.parser._to_int env s = .ok v := by
  unfold Tucan.parser._to_int
  simp [h]
  rfl
theorem t2 (env : DepEnv) (s : Str) (h : parseInt s = .error .value) : Tucan.parser._to_int env s = .error (.custom "TucanParserException") := by
  unfold Tucan.parser._to_int
  simp [h]
  rfl
