import Contracts.Parser
set_option autoImplicit false
open Py Tucan.parser
namespace Contracts.Parser

/-! ### the listener state after the walk -/

def bondsOf (ts : List (Str × Str)) : List (Int × Int) := ts.map (fun t => ((num t.1 : Int) - 1, (num t.2 : Int) - 1))

theorem fold_tupleStep (ts : List (Str × Str)) (st : L) :
    ts.foldlM tupleStep st =
      if ∃ t ∈ ts, num t.1 = num t.2 then .error TPE else .ok { st with _bonds := st._bonds ++ bondsOf ts } := by
  induction ts generalizing st with
  | nil => simp [bondsOf]
  | cons t ts ih =>
    simp only [List.foldlM_cons, tupleStep]
    by_cases h : num t.1 = num t.2
    · simp [h]
    · simp [h, ih, bondsOf]

/-- attribute settings with 0-based atom index, as the listener sees them -/
def settings0 (bs : List (Str × List (Key × Str))) : List ((Int × Key) × Int) :=
  bs.flatMap (fun b => b.2.map (fun kv => (((num b.1 : Int) - 1, kv.1), (num kv.2 : Int))))

def setStep (d : Dict Int Attrs) (s : (Int × Key) × Int) : M (Dict Int Attrs) := addAttr d s.1.1 s.1.2 s.2

theorem fold_blockStep (bs : List (Str × List (Key × Str))) (st : L) :
    bs.foldlM blockStep st =
      ((settings0 bs).foldlM setStep st._node_attributes >>= fun d => .ok { st with _node_attributes := d }) := by
  have inner : ∀ (idx : Str) (kvs : List (Key × Str)) (st : L),
      kvs.foldlM (propStep idx) st =
        ((kvs.map (fun kv => (((num idx : Int) - 1, kv.1), (num kv.2 : Int)))).foldlM setStep st._node_attributes >>=
          fun d => .ok { st with _node_attributes := d }) := by
    intro idx kvs
    induction kvs with
    | nil => intro st; rfl
    | cons kv kvs ih =>
      intro st
      simp only [List.foldlM_cons, List.map_cons, propStep, setStep]
      cases addAttr st._node_attributes ((num idx : Int) - 1) kv.1 (num kv.2) with
      | error e => rfl
      | ok d => simp only [ok_bind]; rw [ih]
  induction bs generalizing st with
  | nil => rfl
  | cons b bs ih =>
    simp only [List.foldlM_cons, blockStep, settings0, List.flatMap_cons, List.foldlM_append, inner]
    cases List.foldlM setStep st._node_attributes (b.2.map (fun kv => (((num b.1 : Int) - 1, kv.1), (num kv.2 : Int)))) with
    | error e => rfl
    | ok d => simp only [ok_bind]; rw [ih]; rfl

theorem Key.attr_inj {k k' : Key} (h : k.attr = k'.attr) : k = k' := by
  cases k <;> cases k' <;> first | rfl | (exact absurd h (by decide))

/-- what the dict of dicts `d` has to do with the list `P` of settings made so far -/
structure AttrInv (d : Dict Int Attrs) (P : List ((Int × Key) × Int)) : Prop where
  wf : d.WF
  vwf : ∀ i a, d.get? i = some a → a.WF
  get : ∀ i (k : Key), (d.get? i).bind (·.get? k.attr) = (P.lookup (i, k)).map Val.int
  only : ∀ i a s, d.get? i = some a → a.get? s ≠ none → ∃ k : Key, s = k.attr
  keys : ∀ i, i ∈ d.keys ↔ ∃ s ∈ P, s.1.1 = i

theorem AttrInv.empty : AttrInv Dict.empty [] where
  wf := Dict.WF_empty
  vwf := by intro i a h; simp at h
  get := by intro i k; simp
  only := by intro i a s h; simp at h
  keys := by intro i; simp

theorem addAttr_inv (d : Dict Int Attrs) (P : List ((Int × Key) × Int)) (i : Int) (k : Key) (v : Int)
    (hinv : AttrInv d P) :
    ((i, k) ∈ P.map Prod.fst → addAttr d i k v = .error TPE) ∧
    ((i, k) ∉ P.map Prod.fst → ∃ d', addAttr d i k v = .ok d' ∧ AttrInv d' (P ++ [((i, k), v)])) := by
  have hsd : ∀ s, (Dict.getD d i (Dict.empty : Attrs)).get? s = (d.get? i).bind (·.get? s) := by
    intro s; unfold Dict.getD; cases d.get? i <;> simp
  have hsdwf : (Dict.getD d i (Dict.empty : Attrs)).WF := by
    unfold Dict.getD
    cases h : d.get? i with
    | none => simp
    | some a => exact hinv.vwf i a h
  have hc : (Dict.getD d i (Dict.empty : Attrs)).contains k.attr = true ↔ (i, k) ∈ P.map Prod.fst := by
    unfold Dict.contains
    rw [hsd, hinv.get, Option.isSome_map, lookup_isSome_iff]
  constructor
  · intro hm
    simp [addAttr, hc.mpr hm]
  · intro hm
    have hc' : ¬ (Dict.getD d i (Dict.empty : Attrs)).contains k.attr = true := fun h => hm (hc.mp h)
    refine ⟨_, by simp [addAttr, hc'], ?_⟩
    have hget : ∀ i', ((d.set i (Dict.getD d i Dict.empty)).set i ((Dict.getD d i Dict.empty).set k.attr (Val.int v))).get? i' =
        if i' = i then some ((Dict.getD d i (Dict.empty : Attrs)).set k.attr (Val.int v)) else d.get? i' := by
      intro i'
      rw [Dict.get?_set]
      split
      · rfl
      · rename_i h; rw [Dict.get?_set, if_neg h]
    refine ⟨Dict.WF_set (Dict.WF_set hinv.wf _ _) _ _, ?_, ?_, ?_, ?_⟩
    · intro i' a h
      rw [hget] at h
      split at h
      · cases h; exact Dict.WF_set hsdwf _ _
      · exact hinv.vwf i' a h
    · intro i' k'
      rw [hget, lookup_append']
      by_cases hi : i' = i
      · subst hi
        simp only [if_true, Option.bind_some, Dict.get?_set]
        by_cases hk : k' = k
        · subst hk
          have : List.lookup (i', k') P = none := by
            rw [lookup_eq_none_iff']; exact hm
          simp [this]
        · have : k'.attr ≠ k.attr := fun h => hk (Key.attr_inj h)
          have hne : (i', k') ≠ (i', k) := by simp [hk]
          rw [if_neg this, hsd, hinv.get]
          simp [List.lookup, hne]
          sorry
      · have hne : (i', k') ≠ (i, k) := by simp [hi]
        rw [if_neg hi, hinv.get]
        sorry
    · sorry
    · sorry

end Contracts.Parser
