import Contracts.Parser
set_option autoImplicit false
open Py Tucan.parser
namespace Contracts.Parser

/-! ### the listener state after the walk -/

def bondsOf (ts : List (Str × Str)) : List (Int × Int) := ts.map (fun t => ((num t.1 : Int) - 1, (num t.2 : Int) - 1))

theorem fold_tupleStep (ts : List (Str × Str)) (st : L) :
    ts.foldlM tupleStep st =
      if ∃ t ∈ ts, num t.1 = num t.2 then .error TPE else .ok { st with _bonds := st._bonds ++ bondsOf ts } := by
  induction ts generalizing st with
  | nil => simp [bondsOf]
  | cons t ts ih =>
    simp only [List.foldlM_cons, tupleStep]
    by_cases h : num t.1 = num t.2
    · simp [h]
    · have e : (∃ t' ∈ t :: ts, num t'.1 = num t'.2) ↔ (∃ t' ∈ ts, num t'.1 = num t'.2) := by simp [h]
      simp only [h, if_false, ok_bind, ih, e, bondsOf, List.map_cons, List.append_assoc, List.singleton_append]

/-- attribute settings with 0-based atom index, as the listener sees them -/
def settings0 (bs : List (Str × List (Key × Str))) : List ((Int × Key) × Int) :=
  bs.flatMap (fun b => b.2.map (fun kv => (((num b.1 : Int) - 1, kv.1), (num kv.2 : Int))))

def setStep (d : Dict Int Attrs) (s : (Int × Key) × Int) : M (Dict Int Attrs) := addAttr d s.1.1 s.1.2 s.2

theorem fold_blockStep (bs : List (Str × List (Key × Str))) (st : L) :
    bs.foldlM blockStep st =
      ((settings0 bs).foldlM setStep st._node_attributes >>= fun d => .ok { st with _node_attributes := d }) := by
  have inner : ∀ (idx : Str) (kvs : List (Key × Str)) (st : L),
      kvs.foldlM (propStep idx) st =
        ((kvs.map (fun kv => (((num idx : Int) - 1, kv.1), (num kv.2 : Int)))).foldlM setStep st._node_attributes >>=
          fun d => .ok { st with _node_attributes := d }) := by
    intro idx kvs
    induction kvs with
    | nil => intro st; rfl
    | cons kv kvs ih =>
      intro st
      simp only [List.foldlM_cons, List.map_cons, propStep, setStep]
      cases addAttr st._node_attributes ((num idx : Int) - 1) kv.1 (num kv.2) with
      | error e => rfl
      | ok d => simp only [ok_bind]; rw [ih]
  induction bs generalizing st with
  | nil => rfl
  | cons b bs ih =>
    simp only [List.foldlM_cons, blockStep, settings0, List.flatMap_cons, List.foldlM_append, inner]
    cases List.foldlM setStep st._node_attributes (b.2.map (fun kv => (((num b.1 : Int) - 1, kv.1), (num kv.2 : Int)))) with
    | error e => rfl
    | ok d => simp only [ok_bind]; rw [ih]; rfl

theorem assoc_eq_lookup {κ ν : Type} [DecidableEq κ] (l : List (κ × ν)) (k : κ) : assoc l k = List.lookup k l := by
  induction l with
  | nil => rfl
  | cons p l ih =>
    obtain ⟨a, b⟩ := p
    rw [lookup_cons', ← ih]
    unfold assoc
    by_cases h : a = k
    · simp [h]
    · have : ¬ k = a := fun e => h e.symm
      simp [h, this]

theorem Key.attr_inj {k k' : Key} (h : k.attr = k'.attr) : k = k' := by
  cases k <;> cases k' <;> first | rfl | (exact absurd h (by decide))

/-- what the dict of dicts `d` has to do with the list `P` of settings made so far -/
structure AttrInv (d : Dict Int Attrs) (P : List ((Int × Key) × Int)) : Prop where
  wf : d.WF
  vwf : ∀ i a, d.get? i = some a → a.WF
  get : ∀ i (k : Key), (d.get? i).bind (·.get? k.attr) = (assoc P (i, k)).map Val.int
  onlyKeys : ∀ i a s, d.get? i = some a → a.get? s ≠ none → ∃ k : Key, s = k.attr
  keys : ∀ i, i ∈ d.keys ↔ ∃ s ∈ P, s.1.1 = i

theorem AttrInv.empty : AttrInv Dict.empty [] where
  wf := Dict.WF_empty
  vwf := by intro i a h; simp at h
  get := by intro i k; simp [assoc]
  onlyKeys := by intro i a s h; simp at h
  keys := by intro i; simp

theorem addAttr_inv (d : Dict Int Attrs) (P : List ((Int × Key) × Int)) (i : Int) (k : Key) (v : Int)
    (hinv : AttrInv d P) :
    ((i, k) ∈ P.map Prod.fst → addAttr d i k v = .error TPE) ∧
    ((i, k) ∉ P.map Prod.fst → ∃ d', addAttr d i k v = .ok d' ∧ AttrInv d' (P ++ [((i, k), v)])) := by
  have hsd : ∀ s, (Dict.getD d i (Dict.empty : Attrs)).get? s = (d.get? i).bind (·.get? s) := by
    intro s; unfold Dict.getD; cases d.get? i <;> simp
  have hsdwf : (Dict.getD d i (Dict.empty : Attrs)).WF := by
    unfold Dict.getD
    cases h : d.get? i with
    | none => simp
    | some a => exact hinv.vwf i a h
  have hc : (Dict.getD d i (Dict.empty : Attrs)).contains k.attr = true ↔ (i, k) ∈ P.map Prod.fst := by
    unfold Dict.contains
    rw [hsd, hinv.get, Option.isSome_map, assoc_eq_lookup, lookup_isSome_iff]
  constructor
  · intro hm
    simp [addAttr, hc.mpr hm]
  · intro hm
    have hc' : ¬ (Dict.getD d i (Dict.empty : Attrs)).contains k.attr = true := fun h => hm (hc.mp h)
    refine ⟨(d.set i (Dict.getD d i Dict.empty)).set i ((Dict.getD d i Dict.empty).set k.attr (Val.int v)),
      by simp [addAttr, hc'], ?_⟩
    have hget : ∀ i', ((d.set i (Dict.getD d i Dict.empty)).set i ((Dict.getD d i Dict.empty).set k.attr (Val.int v))).get? i' =
        if i' = i then some ((Dict.getD d i (Dict.empty : Attrs)).set k.attr (Val.int v)) else d.get? i' := by
      intro i'
      rw [Dict.get?_set]
      split
      · rfl
      · rename_i h; rw [Dict.get?_set, if_neg h]
    refine ⟨Dict.WF_set (Dict.WF_set hinv.wf _ _) _ _, ?_, ?_, ?_, ?_⟩
    · intro i' a h
      rw [hget] at h
      split at h
      · cases h; exact Dict.WF_set hsdwf _ _
      · exact hinv.vwf i' a h
    · intro i' k'
      have hg := hinv.get i' k'
      rw [hget, assoc_eq_lookup, lookup_append', ← assoc_eq_lookup, lookup_cons']
      by_cases hi : i' = i
      · subst hi
        simp only [if_true, Option.bind_some, Dict.get?_set]
        by_cases hk : k' = k
        · subst hk
          have : assoc P (i', k') = none := by rw [assoc_eq_lookup, lookup_eq_none_iff']; exact hm
          simp [this]
        · have : k'.attr ≠ k.attr := fun h => hk (Key.attr_inj h)
          rw [if_neg this, hsd, hg]
          simp [hk]
      · rw [if_neg hi, hg]; simp [hi]
    · intro i' a s h hs
      rw [hget] at h
      split at h
      · cases h
        rw [Dict.get?_set] at hs
        split at hs
        · exact ⟨k, by assumption⟩
        · rw [hsd] at hs
          cases hd : d.get? i with
          | none => simp [hd] at hs
          | some a' => rw [hd] at hs; exact hinv.onlyKeys i a' s hd hs
      · exact hinv.onlyKeys i' a s h hs
    · intro i'
      rw [Dict.mem_keys_set, Dict.mem_keys_set, hinv.keys]
      simp only [List.mem_append, List.mem_singleton]
      constructor
      · rintro (h | h | ⟨s, hs, rfl⟩)
        · exact ⟨_, Or.inr rfl, h.symm⟩
        · exact ⟨_, Or.inr rfl, h.symm⟩
        · exact ⟨s, Or.inl hs, rfl⟩
      · rintro ⟨s, hs | rfl, rfl⟩
        · exact Or.inr (Or.inr ⟨s, hs, rfl⟩)
        · exact Or.inl rfl

theorem fold_setStep (Q P : List ((Int × Key) × Int)) (d : Dict Int Attrs) (hinv : AttrInv d P) :
    (¬ ((P ++ Q).map Prod.fst).Nodup → (P.map Prod.fst).Nodup → Q.foldlM setStep d = .error TPE) ∧
    (((P ++ Q).map Prod.fst).Nodup → ∃ d', Q.foldlM setStep d = .ok d' ∧ AttrInv d' (P ++ Q)) := by
  induction Q generalizing P d with
  | nil =>
    simp only [List.append_nil]
    exact ⟨fun h h' => absurd h' h, fun _ => ⟨d, rfl, hinv⟩⟩
  | cons s Q ih =>
    obtain ⟨⟨i, k⟩, v⟩ := s
    have step := addAttr_inv d P i k v hinv
    have eapp : P ++ ((i, k), v) :: Q = (P ++ [((i, k), v)]) ++ Q := by simp
    simp only [List.foldlM_cons, setStep]
    by_cases hm : (i, k) ∈ P.map Prod.fst
    · constructor
      · intro _ _; rw [step.1 hm]; rfl
      · intro hnd
        exfalso
        simp only [List.map_append, List.map_cons] at hnd
        rw [List.nodup_append] at hnd
        exact hnd.2.2 _ hm _ (by simp) rfl
    · obtain ⟨d', hd', hinv'⟩ := step.2 hm
      rw [hd', eapp]
      simp only [ok_bind]
      have hP' : ((P ++ [((i, k), v)]).map Prod.fst).Nodup → True := fun _ => trivial
      constructor
      · intro hnd hP
        refine (ih _ d' hinv').1 hnd ?_
        simp only [List.map_append, List.map_cons, List.map_nil]
        rw [List.nodup_append]
        refine ⟨hP, by simp, ?_⟩
        intro x hx y hy
        simp at hy; subst hy
        rintro rfl; exact hm hx
      · intro hnd
        exact (ih _ d' hinv').2 hnd


def shift (p : Nat × Key) : Int × Key := ((p.1 : Int) - 1, p.2)
theorem shift_inj : Function.Injective shift := by
  rintro ⟨a, k⟩ ⟨b, k'⟩ h
  simp only [shift, Prod.mk.injEq] at h
  obtain ⟨h1, rfl⟩ := h
  have : a = b := by omega
  subst this; rfl

theorem settings0_eq (a : Ast) :
    settings0 a.blocks = a.settings.map (fun s => (shift s.1, (s.2 : Int))) := by
  simp [settings0, Ast.settings, List.map_flatMap, shift, Function.comp_def]

theorem settings0_keys (a : Ast) : (settings0 a.blocks).map Prod.fst = (a.settings.map Prod.fst).map shift := by
  simp [settings0_eq]

theorem settings0_nodup (a : Ast) : ((settings0 a.blocks).map Prod.fst).Nodup ↔ ¬ a.DupAttr := by
  rw [settings0_keys, List.nodup_map_iff shift_inj, Ast.DupAttr, not_not]

theorem selfBond_iff (a : Ast) : a.SelfBond ↔ ∃ t ∈ a.tuples, num t.1 = num t.2 := by
  simp only [Ast.SelfBond, Ast.bonds1, List.mem_map]
  constructor
  · rintro ⟨b, ⟨t, ht, rfl⟩, h⟩; exact ⟨t, ht, h⟩
  · rintro ⟨t, ht, h⟩; exact ⟨_, ⟨t, ht, rfl⟩, h⟩

theorem walkSpec_error (a : Ast) (h : a.SelfBond ∨ a.DupAttr) : walkSpec a = .error TPE := by
  unfold walkSpec
  simp only [fold_tupleStep]
  by_cases hs : a.SelfBond
  · rw [if_pos ((selfBond_iff a).mp hs)]; rfl
  · rw [if_neg (fun h' => hs ((selfBond_iff a).mpr h'))]
    have hd : a.DupAttr := h.resolve_left hs
    simp only [ok_bind, fold_blockStep]
    have := (fold_setStep (settings0 a.blocks) [] Dict.empty AttrInv.empty).1
      (by simpa [settings0_nodup] using hd) (by simp)
    show (List.foldlM setStep Dict.empty (settings0 a.blocks) >>= _) = _
    rw [this]; rfl

theorem walkSpec_ok (a : Ast) (h1 : ¬ a.SelfBond) (h2 : ¬ a.DupAttr) :
    ∃ D, walkSpec a = .ok { _atoms := (expand a.formula).map baseAttrs, _bonds := bondsOf a.tuples, _node_attributes := D } ∧
      AttrInv D (settings0 a.blocks) := by
  obtain ⟨D, hD, hinv⟩ := (fold_setStep (settings0 a.blocks) [] Dict.empty AttrInv.empty).2
    (by simpa [settings0_nodup] using h2)
  refine ⟨D, ?_, by simpa using hinv⟩
  unfold walkSpec
  simp only [fold_tupleStep]
  rw [if_neg (fun h' => h1 ((selfBond_iff a).mpr h'))]
  simp only [ok_bind, fold_blockStep]
  show (List.foldlM setStep Dict.empty (settings0 a.blocks) >>= _) = _
  rw [hD]; rfl

end Contracts.Parser
