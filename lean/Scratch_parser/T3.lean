import Generated.Parser
import Spec.GraphView
set_option autoImplicit false
open Py

def periodicTable : List Str := [
  py!"H", py!"He",
  py!"Li", py!"Be", py!"B", py!"C", py!"N", py!"O", py!"F", py!"Ne",
  py!"Na", py!"Mg", py!"Al", py!"Si", py!"P", py!"S", py!"Cl", py!"Ar",
  py!"K", py!"Ca", py!"Sc", py!"Ti", py!"V", py!"Cr", py!"Mn", py!"Fe", py!"Co", py!"Ni", py!"Cu", py!"Zn",
  py!"Ga", py!"Ge", py!"As", py!"Se", py!"Br", py!"Kr",
  py!"Rb", py!"Sr", py!"Y", py!"Zr", py!"Nb", py!"Mo", py!"Tc", py!"Ru", py!"Rh", py!"Pd", py!"Ag", py!"Cd",
  py!"In", py!"Sn", py!"Sb", py!"Te", py!"I", py!"Xe",
  py!"Cs", py!"Ba",
  py!"La", py!"Ce", py!"Pr", py!"Nd", py!"Pm", py!"Sm", py!"Eu", py!"Gd", py!"Tb", py!"Dy", py!"Ho", py!"Er", py!"Tm", py!"Yb", py!"Lu",
  py!"Hf", py!"Ta", py!"W", py!"Re", py!"Os", py!"Ir", py!"Pt", py!"Au", py!"Hg", py!"Tl", py!"Pb", py!"Bi", py!"Po", py!"At", py!"Rn",
  py!"Fr", py!"Ra",
  py!"Ac", py!"Th", py!"Pa", py!"U", py!"Np", py!"Pu", py!"Am", py!"Cm", py!"Bk", py!"Cf", py!"Es", py!"Fm", py!"Md", py!"No", py!"Lr",
  py!"Rf", py!"Db", py!"Sg", py!"Bh", py!"Hs", py!"Mt", py!"Ds", py!"Rg", py!"Cn", py!"Nh", py!"Fl", py!"Mc", py!"Lv", py!"Ts", py!"Og"]

def atomicNumber (s : Str) : Int := (periodicTable.idxOf s : Nat) + 1

theorem keys_eq : Tucan.Consts.ELEMENT_ATTRS.keys = periodicTable := by decide

def elemRule (sym : Str) : String := String.ofList (sym.map Char.toLower)

set_option maxRecDepth 100000 in
theorem table_ok : ∀ s ∈ periodicTable,
    (Tucan.Consts.ELEMENT_ATTRS.get? s).bind (·.get? "atomic_number") = some (Val.int (atomicNumber s)) := by
  decide

set_option maxRecDepth 100000 in
theorem rule_ok : ∀ s ∈ periodicTable, elemRule s ∉ ["with_carbon", "without_carbon", "tuple", "node_property"] := by
  decide
#eval periodicTable.map elemRule
