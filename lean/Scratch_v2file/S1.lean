import Contracts.Final
set_option autoImplicit false
set_option linter.unusedSimpArgs false
set_option linter.unusedVariables false
open Py

namespace Contracts.V2000File

open Contracts.V2000 (fmt3 field fieldInt fieldFloat Item Kind endLine lineKind specGet atomDict)
open Contracts.Reader (NoBreak blanks IsSep lastWord)
open Contracts.Parser (periodicTable atomicNumber withCode codeOf)

/-! ## 1. the abstract molecule -/

structure AAtom where
  sym : Str
  chg : Int
  rad : Nat
  mass : Nat
  x : Str
  y : Str
  z : Str

structure ABond where
  a1 : Nat
  a2 : Nat
  typ : Nat

structure AMol where
  atoms : List AAtom
  bonds : List ABond

/-- the element a symbol denotes: `D` and `T` are hydrogen -/
def elemOf (s : Str) : Str := if s = py!"D" ∨ s = py!"T" then py!"H" else s
/-- the isotope mass a symbol fixes: 2 for `D`, 3 for `T`, otherwise none (0) -/
def isoOf (s : Str) : Nat := if s = py!"D" then 2 else if s = py!"T" then 3 else 0

theorem v2_hydrogenIsotope (s : Str) : Contracts.V2000.hydrogenIsotope s = (elemOf s, (isoOf s : Int)) := by
  unfold Contracts.V2000.hydrogenIsotope elemOf isoOf
  by_cases h1 : s = py!"D"
  · subst h1; decide
  · by_cases h2 : s = py!"T"
    · subst h2; decide
    · simp [h1, h2]

theorem v3_hydrogenIsotope (s : Str) : Contracts.V3000.hydrogenIsotope s = (elemOf s, (isoOf s : Int)) := by
  unfold Contracts.V3000.hydrogenIsotope elemOf isoOf
  by_cases h1 : s = py!"D"
  · subst h1; decide
  · by_cases h2 : s = py!"T"
    · subst h2; decide
    · simp [h1, h2]

structure AAtom.WF (a : AAtom) : Prop where
  elem : elemOf a.sym ∈ periodicTable
  iso : isoOf a.sym ≠ 0 → a.mass = isoOf a.sym
  chgLo : -99 ≤ a.chg
  chgHi : a.chg ≤ 999
  rad : a.rad ≤ 999
  mass : a.mass ≤ 999
  xlen : a.x.length ≤ 10
  ylen : a.y.length ≤ 10
  zlen : a.z.length ≤ 10

structure ABond.WF (n : Nat) (b : ABond) : Prop where
  a1 : b.a1 < n
  a2 : b.a2 < n
  ne : b.a1 ≠ b.a2
  typ : b.typ ≤ 999

structure AMol.WF (m : AMol) : Prop where
  natoms : m.atoms.length ≤ 999
  nbonds : m.bonds.length ≤ 999
  atoms : ∀ a ∈ m.atoms, a.WF
  bonds : ∀ b ∈ m.bonds, b.WF m.atoms.length

/-! ## 2. the V2000 renderer -/

/-- a coordinate token right-aligned in its ten columns -/
def fmt10 (t : Str) : Str := padLeft t 10 ' '
/-- an atom symbol left-aligned in its three columns -/
def fmtSym (s : Str) : Str := s ++ blanks (3 - s.length)

/-- atom line `xxxxx.xxxxyyyyy.yyyyzzzzz.zzzz aaaddcccssshhhbbbvvvHHHrrriiimmmnnneee`: mass difference `dd` = 0,
charge code `ccc` = `code`, the remaining fields `rest` -/
def atomLine (a : AAtom) (code : Nat) (rest : Str) : Str :=
  fmt10 a.x ++ (fmt10 a.y ++ (fmt10 a.z ++ (' ' :: (fmtSym a.sym ++ (' ' :: '0' :: (fmt3 code ++ rest))))))

/-- bond line `111222tttsssxxxrrrccc`: atom numbers (1-based), bond type, the remaining fields `rest` -/
def bondLine (b : ABond) (rest : Str) : Str :=
  fmt3 ((b.a1 + 1 : Nat) : Int) ++ fmt3 ((b.a2 + 1 : Nat) : Int) ++ fmt3 (b.typ : Int) ++ rest

theorem length_fmt10 (t : Str) (h : t.length ≤ 10) : (fmt10 t).length = 10 := by
  simp [fmt10, padLeft]; omega

theorem length_fmtSym (s : Str) (h : s.length ≤ 3) : (fmtSym s).length = 3 := by
  simp [fmtSym, blanks]; omega

set_option maxRecDepth 100000 in
theorem table_syms : ∀ s ∈ periodicTable, s.length ≤ 3 ∧ ' ' ∉ s ∧ s ≠ py!"D" ∧ s ≠ py!"T" ∧
    ∀ c ∈ s, isLineBreak c = false := by decide


/-! ### fields of the rendered lines -/

theorem field_at {α : Type} (p f q : List α) (n k : Nat) (hp : p.length = n) (hf : f.length = k) :
    ((p ++ (f ++ q)).drop n).take k = f := by
  subst hp hf; simp

theorem stripChar_fmtSym (s : Str) (h : ' ' ∉ s) : stripChar (fmtSym s) ' ' = s := by
  unfold stripChar fmtSym blanks
  cases s with
  | nil =>
    have : (List.replicate (3 - ([] : Str).length) ' ').dropWhile (fun x => decide (x = ' ')) = [] := by
      rw [List.dropWhile_eq_nil_iff]; intro c hc; simp [List.eq_of_mem_replicate hc]
    simp [this]
  | cons c s =>
    have hc : c ≠ ' ' := fun e => h (by simp [e])
    have h1 : ((c :: s) ++ List.replicate (3 - (c :: s).length) ' ').dropWhile (fun x => decide (x = ' ')) =
        (c :: s) ++ List.replicate (3 - (c :: s).length) ' ' := by
      simp [List.dropWhile_cons, hc]
    rw [h1, List.reverse_append, List.reverse_replicate,
      List.dropWhile_append_of_pos (by intro a ha; simp [List.eq_of_mem_replicate ha])]
    have h2 : (c :: s).reverse.dropWhile (fun x => decide (x = ' ')) = (c :: s).reverse := by
      cases hr : (c :: s).reverse with
      | nil => rfl
      | cons d r =>
        have : d ∈ c :: s := by rw [← List.mem_reverse, hr]; simp
        have hd : d ≠ ' ' := fun e => h (e ▸ this)
        simp [List.dropWhile_cons, hd]
    rw [h2, List.reverse_reverse]

structure AAtom.Lens (a : AAtom) : Prop where
  x : a.x.length ≤ 10
  y : a.y.length ≤ 10
  z : a.z.length ≤ 10
  s : a.sym.length ≤ 3

theorem fields_atomLine (a : AAtom) (code : Nat) (rest : Str) (h : a.Lens) (hcode : code ≤ 999) :
    field (atomLine a code rest) 0 10 = fmt10 a.x ∧ field (atomLine a code rest) 10 10 = fmt10 a.y ∧
    field (atomLine a code rest) 20 10 = fmt10 a.z ∧ field (atomLine a code rest) 31 3 = fmtSym a.sym ∧
    field (atomLine a code rest) 36 3 = fmt3 code := by
  have lx := length_fmt10 a.x h.x
  have ly := length_fmt10 a.y h.y
  have lz := length_fmt10 a.z h.z
  have ls := length_fmtSym a.sym h.s
  have lc := Contracts.V2000.length_fmt3 (code : Int) (by omega) (by omega)
  unfold field atomLine
  refine ⟨?_, ?_, ?_, ?_, ?_⟩
  · exact field_at [] _ _ 0 10 rfl lx
  · exact field_at _ _ _ 10 10 lx ly
  · have := field_at (fmt10 a.x ++ fmt10 a.y) (fmt10 a.z) (' ' :: (fmtSym a.sym ++ (' ' :: '0' :: (fmt3 code ++ rest)))) 20 10
      (by simp [lx, ly]) lz
    simpa [List.append_assoc] using this
  · have := field_at (fmt10 a.x ++ fmt10 a.y ++ fmt10 a.z ++ [' ']) (fmtSym a.sym) (' ' :: '0' :: (fmt3 code ++ rest)) 31 3
      (by simp [lx, ly, lz]) ls
    simpa [List.append_assoc] using this
  · have := field_at (fmt10 a.x ++ fmt10 a.y ++ fmt10 a.z ++ [' '] ++ fmtSym a.sym ++ [' ', '0']) (fmt3 code) rest 36 3
      (by simp [lx, ly, lz, ls]) lc
    simpa [List.append_assoc] using this


theorem elem_of_table (s : Str) (hs : s ∈ periodicTable) :
    ∃ ea, Tucan.Consts.ELEMENT_ATTRS.get? s = some ea ∧
      ea.get? "atomic_number" = some (Val.int (atomicNumber s)) := by
  have h := Contracts.Parser.table_ok s hs
  cases hg : Tucan.Consts.ELEMENT_ATTRS.get? s with
  | none => rw [hg] at h; cases h
  | some ea => rw [hg] at h; exact ⟨ea, rfl, h⟩

theorem elemOf_cases (s : Str) (h : elemOf s ∈ periodicTable) :
    (s ∈ periodicTable ∧ elemOf s = s ∧ isoOf s = 0) ∨ (s = py!"D" ∧ elemOf s = py!"H" ∧ isoOf s = 2) ∨
      (s = py!"T" ∧ elemOf s = py!"H" ∧ isoOf s = 3) := by
  by_cases h1 : s = py!"D"
  · subst h1; right; left; decide
  · by_cases h2 : s = py!"T"
    · subst h2; right; right; decide
    · left
      have e : elemOf s = s := by simp [elemOf, h1, h2]
      exact ⟨e ▸ h, e, by simp [isoOf, h1, h2]⟩

theorem sym_shape (s : Str) (h : elemOf s ∈ periodicTable) :
    s.length ≤ 3 ∧ ' ' ∉ s ∧ ∀ c ∈ s, isLineBreak c = false := by
  rcases elemOf_cases s h with ⟨hs, _, _⟩ | ⟨rfl, _, _⟩ | ⟨rfl, _, _⟩
  · obtain ⟨a, b, _, _, c⟩ := table_syms s hs; exact ⟨a, b, c⟩
  · decide
  · decide

/-- value of a coordinate field of an atom line (`blank = 0`, otherwise `float()` of the ten columns) -/
def coordOf (env : DepEnv) (t : Str) : Val :=
  match fieldFloat env (fmt10 t) with | .ok v => v | .error _ => Val.none

/-- the coordinate fields are accepted by `float()` -/
def CoordsOK (env : DepEnv) (m : AMol) : Prop :=
  ∀ a ∈ m.atoms, ∀ t ∈ [a.x, a.y, a.z], ∃ v, fieldFloat env (fmt10 t) = .ok v

theorem coordOf_ok (env : DepEnv) (t : Str) (h : ∃ v, fieldFloat env (fmt10 t) = .ok v) :
    fieldFloat env (fmt10 t) = .ok (coordOf env t) := by
  obtain ⟨v, hv⟩ := h; simp [coordOf, hv]

/-- what `_parse_atom_line` returns on a rendered atom line -/
def attrs0 (env : DepEnv) (a : AAtom) (code : Nat) : Attrs :=
  Contracts.V2000.atomAttrs (elemOf a.sym) (Val.int (atomicNumber (elemOf a.sym)))
    (coordOf env a.x) (coordOf env a.y) (coordOf env a.z) code (isoOf a.sym)

theorem parse_atomLine (env : DepEnv) (a : AAtom) (code : Nat) (rest : Str) (ha : a.WF) (hcode : code ≤ 999)
    (hco : ∀ t ∈ [a.x, a.y, a.z], ∃ v, fieldFloat env (fmt10 t) = .ok v) :
    Tucan.molfile_v2000_reader._parse_atom_line env (atomLine a code rest) = .ok (attrs0 env a code) := by
  obtain ⟨hl, hb, _⟩ := sym_shape a.sym ha.elem
  obtain ⟨f0, f10, f20, f31, f36⟩ := fields_atomLine a code rest ⟨ha.xlen, ha.ylen, ha.zlen, hl⟩ hcode
  obtain ⟨ea, hea, hz⟩ := elem_of_table _ ha.elem
  have := Contracts.V2000._parse_atom_line_ok env (atomLine a code rest) a.sym ea (Val.int (atomicNumber (elemOf a.sym)))
    (coordOf env a.x) (coordOf env a.y) (coordOf env a.z) code
    (by rw [f31]; exact stripChar_fmtSym a.sym hb)
    (by rw [v2_hydrogenIsotope]; exact hea) hz
    (by rw [f0]; exact coordOf_ok env _ (hco _ (by simp)))
    (by rw [f10]; exact coordOf_ok env _ (hco _ (by simp)))
    (by rw [f20]; exact coordOf_ok env _ (hco _ (by simp)))
    (by rw [f36]; exact Contracts.V2000.fieldInt_fmt3 _ (by omega) (by omega))
  rw [this, v2_hydrogenIsotope]; rfl

theorem parse_bondLine (env : DepEnv) (attrs : List Attrs) (b : ABond) (rest : Str) (hb : b.WF attrs.length)
    (hn : attrs.length ≤ 999) :
    Tucan.molfile_v2000_reader._parse_bond_line env (bondLine b rest) (atomDict attrs) =
      .ok (((b.a1 : Int), (b.a2 : Int)), ⟨[("bond_type", Val.int b.typ)]⟩) := by
  have h1 := hb.a1
  have h2 := hb.a2
  have := Contracts.V2000._parse_bond_line_ok env (atomDict attrs) (b.a1 + 1) (b.a2 + 1) b.typ rest (by omega) (by omega)
    hb.typ (by rw [Contracts.V2000.atomDict_contains]; simp; omega)
    (by rw [Contracts.V2000.atomDict_contains]; simp; omega)
  unfold bondLine
  rw [this]
  simp

end Contracts.V2000File
