import Scratch_v2file.S1
set_option autoImplicit false
set_option linter.unusedSimpArgs false
set_option linter.unusedVariables false
set_option linter.unusedSectionVars false
set_option linter.unusedTactic false
set_option linter.unreachableTactic false
set_option linter.unnecessarySeqFocus false
open Py

namespace Contracts.V2000File

open Contracts.V2000 (fmt3 field fieldInt fieldFloat Item Kind endLine lineKind specGet atomDict entriesOf lastWins entryVals supersedes)
open Contracts.Reader (NoBreak blanks IsSep lastWord)
open Contracts.Parser (periodicTable atomicNumber withCode codeOf)

/-- the atom-block charge code `ccc` (CTfile): 1 = +3, 2 = +2, 3 = +1, 4 = doublet radical, 5 = −1, 6 = −2, 7 = −3 -/
def codeChg : Nat → Int
  | 1 => 3 | 2 => 2 | 3 => 1 | 5 => -1 | 6 => -2 | 7 => -3 | _ => 0
def codeRad : Nat → Nat
  | 4 => 2 | _ => 0

def optInt (v : Int) : Option Val := if v = 0 then none else some (Val.int v)

/-- the attributes of a node as a function of the key -/
def baseAttr (sym : Str) (z fx fy fz : Val) (chg rad mass : Int) (k : String) : Option Val :=
  if k = "element_symbol" then some (Val.str sym)
  else if k = "atomic_number" then some z
  else if k = "partition" then some (Val.int 0)
  else if k = "x_coord" then some fx
  else if k = "y_coord" then some fy
  else if k = "z_coord" then some fz
  else if k = "chg" then optInt chg
  else if k = "rad" then optInt rad
  else if k = "mass" then optInt mass
  else none

theorem lookup_cons_ite {ν : Type} (k a : String) (v : ν) (l : List (String × ν)) :
    List.lookup k ((a, v) :: l) = if k = a then some v else List.lookup k l := by
  by_cases h : k = a
  · subst h; simp
  · have : (k == a) = false := by simpa using h
    simp [List.lookup_cons, this, h]

theorem lookup_chargeOfCode (c : Nat) (hc : c ≤ 7) (k : String) :
    (Contracts.V2000.chargeOfCode c).lookup k =
      if k = "chg" then optInt (codeChg c) else if k = "rad" then optInt (codeRad c) else none := by
  interval_cases c <;> simp [Contracts.V2000.chargeOfCode, codeChg, codeRad, optInt, lookup_cons_ite] <;>
    (try simp_all) <;> (try (rintro rfl; decide))

theorem atomAttrs_get? (sym : Str) (z fx fy fz : Val) (c : Nat) (hc : c ≤ 7) (m : Nat) (k : String) :
    (Contracts.V2000.atomAttrs sym z fx fy fz c m).get? k = baseAttr sym z fx fy fz (codeChg c) (codeRad c) m k := by
  unfold Contracts.V2000.atomAttrs Dict.get?
  simp only [List.lookup_append, lookup_chargeOfCode c hc]
  have hm : (if (m : Int) = 0 then ([] : List (String × Val)) else [("mass", Val.int m)]).lookup k =
      if k = "mass" then optInt m else none := by
    by_cases h : m = 0
    · subst h; simp [optInt]
    · have h' : ¬ (m : Int) = 0 := by omega
      simp [h, h', optInt, lookup_cons_ite]
  rw [hm]
  unfold baseAttr
  simp only [lookup_cons_ite, List.lookup_nil]
  split_ifs <;> simp_all


/-- value of the attribute a property line of kind `K` sets -/
def valOf (K : Kind) (a : AAtom) : Int :=
  match K with
  | .chg => a.chg
  | .rad => a.rad
  | .iso => a.mass

/-- **the encoding choices of a V2000 rendering** -/
structure Choice where
  /-- the three header lines -/
  h0 : Str
  h1 : Str
  h2 : Str
  /-- the counts line after `aaabbblll` and before the version word -/
  countsMid : Str
  /-- blanks after the version word -/
  countsTrail : Nat
  /-- the charge code written on atom line `i` -/
  code : Nat → Nat
  /-- columns 39… of atom line `i` -/
  atomRest : Nat → Str
  /-- columns 9… of bond line `j` -/
  bondRest : Nat → Str
  /-- the lines of the property block before `M  END`: `M  CHG` / `M  RAD` / `M  ISO` lines with their entries
  (1-based atom number, value), grouped and ordered at will, and unrelated lines -/
  items : List Item
  /-- the lines after `M  END` -/
  post : List Str

/-- atom `i` (0-based) is named by an entry of a line of kind `K` -/
def Listed (items : List Item) (K : Kind) (i : Nat) : Prop :=
  ∃ es, Item.prop K es ∈ items ∧ ∃ e ∈ es, e.1 = i + 1

/-- some `M  CHG` or `M  RAD` line is present (then all atom-block charge codes are superseded) -/
def Supersede (items : List Item) : Prop := ∃ K es, Item.prop K es ∈ items ∧ K ≠ Kind.iso

structure Choice.OK (m : AMol) (c : Choice) : Prop where
  /-- charge codes are 0…7 -/
  codes : ∀ i < m.atoms.length, c.code i ≤ 7
  /-- unrelated lines are neither CHG/RAD/ISO lines nor `M  END` -/
  others : ∀ s, Item.other s ∈ c.items → lineKind s = none ∧ s ≠ endLine
  /-- at most eight entries per line -/
  lineLen : ∀ K es, Item.prop K es ∈ c.items → es.length ≤ 8
  /-- every entry names an atom of the molecule and states that atom's value -/
  entries : ∀ K es, Item.prop K es ∈ c.items → ∀ e ∈ es, 1 ≤ e.1 ∧ ∃ a, m.atoms[e.1 - 1]? = some a ∧ e.2 = valOf K a
  /-- without CHG/RAD lines the charge codes state charge and radical of every atom -/
  byCode : ¬ Supersede c.items → ∀ i a, m.atoms[i]? = some a →
    codeChg (c.code i) = a.chg ∧ codeRad (c.code i) = a.rad
  /-- with a CHG or RAD line every charged atom is named in a CHG line and every radical in a RAD line -/
  byLine : Supersede c.items → ∀ i a, m.atoms[i]? = some a →
    (a.chg ≠ 0 → Listed c.items .chg i) ∧ (a.rad ≠ 0 → Listed c.items .rad i)
  /-- every isotope-labelled atom is written `D` / `T` or named in an ISO line -/
  iso : ∀ i a, m.atoms[i]? = some a → a.mass ≠ 0 → isoOf a.sym ≠ 0 ∨ Listed c.items .iso i

theorem mem_entriesOf (items : List Item) (K : Kind) (p : Int × Int) :
    p ∈ entriesOf (items.filterMap Item.parsed) K ↔
      ∃ es, Item.prop K es ∈ items ∧ ∃ e ∈ es, p = ((e.1 : Int) - 1, e.2) := by
  simp only [entriesOf, List.mem_flatMap, List.mem_filter, List.mem_filterMap, decide_eq_true_eq]
  constructor
  · rintro ⟨q, ⟨⟨it, hit, hq⟩, hK⟩, hp⟩
    cases it with
    | prop K' es =>
      simp only [Item.parsed, Option.some.injEq] at hq
      subst hq
      simp only at hK
      subst hK
      refine ⟨es, hit, ?_⟩
      simp only [entryVals, List.mem_map] at hp
      obtain ⟨e, he, rfl⟩ := hp
      exact ⟨e, he, rfl⟩
    | other s => simp [Item.parsed] at hq
  · rintro ⟨es, hit, e, he, rfl⟩
    refine ⟨(K, entryVals es), ⟨⟨_, hit, rfl⟩, rfl⟩, ?_⟩
    simp only [entryVals, List.mem_map]
    exact ⟨e, he, rfl⟩

theorem lastWins_mem (es : List (Int × Int)) (a v : Int) (h : lastWins es a = some v) : (a, v) ∈ es := by
  unfold lastWins at h
  obtain ⟨p, hp, rfl⟩ := Option.map_eq_some_iff.mp h
  have := List.mem_of_getLast? hp
  simp only [List.mem_filter, decide_eq_true_eq] at this
  obtain ⟨hm, rfl⟩ := this
  exact hm

theorem lastWins_ne_none (es : List (Int × Int)) (a v : Int) (h : (a, v) ∈ es) : ∃ w, lastWins es a = some w := by
  unfold lastWins
  have hne : es.filter (fun e => decide (e.1 = a)) ≠ [] := by
    intro e
    have : (a, v) ∈ es.filter (fun e => decide (e.1 = a)) := by simp [h]
    rw [e] at this; cases this
  obtain ⟨p, hp⟩ : ∃ p, (es.filter (fun e => decide (e.1 = a))).getLast? = some p := by
    rw [List.getLast?_eq_some_getLast hne]; exact ⟨_, rfl⟩
  exact ⟨p.2, by rw [hp]; rfl⟩

theorem supersedes_iff (items : List Item) :
    supersedes (items.filterMap Item.parsed) = true ↔ Supersede items := by
  simp only [supersedes, List.any_eq_true, List.mem_filterMap, decide_eq_true_eq, Supersede]
  constructor
  · rintro ⟨q, ⟨it, hit, hq⟩, hK⟩
    cases it with
    | prop K es =>
      simp only [Item.parsed, Option.some.injEq] at hq
      subst hq
      exact ⟨K, es, hit, hK⟩
    | other s => simp [Item.parsed] at hq
  · rintro ⟨K, es, hit, hK⟩
    exact ⟨(K, entryVals es), ⟨_, hit, rfl⟩, hK⟩


/-- the attributes of the node of atom `a`, coordinates `fx fy fz` -/
def nodeAttr (fx fy fz : Val) (a : AAtom) (k : String) : Option Val :=
  baseAttr (elemOf a.sym) (Val.int (atomicNumber (elemOf a.sym))) fx fy fz a.chg a.rad a.mass k

section
variable (m : AMol) (c : Choice) (hc : c.OK m) (i : Nat) (a : AAtom) (hi : m.atoms[i]? = some a)
include hc hi

theorem lastWins_val (K : Kind) (v : Int)
    (h : lastWins (entriesOf (c.items.filterMap Item.parsed) K) (i : Int) = some v) : v = valOf K a := by
  obtain ⟨es, hit, e, he, hp⟩ := (mem_entriesOf _ _ _).mp (lastWins_mem _ _ _ h)
  obtain ⟨h1, a', ha', hv⟩ := hc.entries K es hit e he
  simp only [Prod.mk.injEq] at hp
  obtain ⟨hp1, rfl⟩ := hp
  have : e.1 - 1 = i := by omega
  rw [this, hi] at ha'
  cases ha'
  exact hv

theorem lastWins_none (K : Kind)
    (h : lastWins (entriesOf (c.items.filterMap Item.parsed) K) (i : Int) = none) : ¬ Listed c.items K i := by
  rintro ⟨es, hit, e, he, h1⟩
  obtain ⟨w, hw⟩ := lastWins_ne_none (entriesOf (c.items.filterMap Item.parsed) K) (i : Int) e.2
    ((mem_entriesOf _ _ _).mpr ⟨es, hit, e, he, by simp [h1]⟩)
  rw [hw] at h; cases h

end

theorem optInt_zero : optInt 0 = none := rfl
theorem optInt_ne {v : Int} (h : v ≠ 0) : optInt v = some (Val.int v) := by simp [optInt, h]

/-- **the property block on a rendering**: after the block, every attribute of atom `i` has the value the
abstract molecule states -/
theorem specGet_render (env : DepEnv) (m : AMol) (hm : m.WF) (c : Choice) (hc : c.OK m) (i : Nat) (a : AAtom)
    (hi : m.atoms[i]? = some a) (k : String) :
    specGet (c.items.filterMap Item.parsed) (i : Int) (attrs0 env a (c.code i)) k =
      nodeAttr (coordOf env a.x) (coordOf env a.y) (coordOf env a.z) a k := by
  have hil : i < m.atoms.length := (List.getElem?_eq_some_iff.mp hi).1
  have haw : a.WF := hm.atoms a (List.mem_of_getElem? hi)
  have hold : ∀ k, (attrs0 env a (c.code i)).get? k =
      baseAttr (elemOf a.sym) (Val.int (atomicNumber (elemOf a.sym))) (coordOf env a.x) (coordOf env a.y)
        (coordOf env a.z) (codeChg (c.code i)) (codeRad (c.code i)) (isoOf a.sym) k :=
    fun k => atomAttrs_get? _ _ _ _ _ _ (hc.codes i hil) _ k
  by_cases h1 : k = "chg"
  · subst h1
    rw [Contracts.V2000.specGet_chg, hold]
    simp only [nodeAttr, baseAttr, String.reduceEq, if_false, if_true]
    by_cases hs : supersedes (c.items.filterMap Item.parsed) = true
    · have hS := (supersedes_iff _).mp hs
      simp only [hs, if_true]
      cases hl : lastWins (entriesOf (c.items.filterMap Item.parsed) .chg) (i : Int) with
      | none =>
        have := lastWins_none m c hc i a hi .chg hl
        have h0 : a.chg = 0 := by
          by_contra hne; exact this ((hc.byLine hS i a hi).1 hne)
        simp [h0, optInt_zero]
      | some v =>
        have hv : v = a.chg := lastWins_val m c hc i a hi .chg v hl
        subst hv
        by_cases h0 : a.chg = 0
        · simp [h0, optInt_zero]
        · simp [h0, optInt_ne h0]
    · have hS : ¬ Supersede c.items := fun h => hs ((supersedes_iff _).mpr h)
      have hnl : lastWins (entriesOf (c.items.filterMap Item.parsed) .chg) (i : Int) = none := by
        cases hl : lastWins (entriesOf (c.items.filterMap Item.parsed) .chg) (i : Int) with
        | none => rfl
        | some v =>
          obtain ⟨es, hit, _⟩ := (mem_entriesOf _ _ _).mp (lastWins_mem _ _ _ hl)
          exact absurd ⟨.chg, es, hit, by decide⟩ hS
      have hs' : supersedes (c.items.filterMap Item.parsed) = false := by simpa using hs
      simp only [hnl, hs', Bool.false_eq_true, if_false, (hc.byCode hS i a hi).1]
  · by_cases h2 : k = "rad"
    · subst h2
      rw [Contracts.V2000.specGet_rad, hold]
      simp only [nodeAttr, baseAttr, String.reduceEq, if_false, if_true]
      by_cases hs : supersedes (c.items.filterMap Item.parsed) = true
      · have hS := (supersedes_iff _).mp hs
        simp only [hs, if_true]
        cases hl : lastWins (entriesOf (c.items.filterMap Item.parsed) .rad) (i : Int) with
        | none =>
          have := lastWins_none m c hc i a hi .rad hl
          have h0 : a.rad = 0 := by
            by_contra hne; exact this ((hc.byLine hS i a hi).2 hne)
          simp [h0, optInt_zero]
        | some v =>
          have hv : v = (a.rad : Int) := lastWins_val m c hc i a hi .rad v hl
          subst hv
          by_cases h0 : (a.rad : Int) = 0
          · simp [h0, optInt_zero]
          · have h0n : ¬ a.rad = 0 := by omega
            simp [h0, h0n, optInt_ne h0]
      · have hS : ¬ Supersede c.items := fun h => hs ((supersedes_iff _).mpr h)
        have hnl : lastWins (entriesOf (c.items.filterMap Item.parsed) .rad) (i : Int) = none := by
          cases hl : lastWins (entriesOf (c.items.filterMap Item.parsed) .rad) (i : Int) with
          | none => rfl
          | some v =>
            obtain ⟨es, hit, _⟩ := (mem_entriesOf _ _ _).mp (lastWins_mem _ _ _ hl)
            exact absurd ⟨.rad, es, hit, by decide⟩ hS
        have hs' : supersedes (c.items.filterMap Item.parsed) = false := by simpa using hs
        simp only [hnl, hs', Bool.false_eq_true, if_false, (hc.byCode hS i a hi).2]
    · by_cases h3 : k = "mass"
      · subst h3
        rw [Contracts.V2000.specGet_mass, hold]
        simp only [nodeAttr, baseAttr, String.reduceEq, if_false, if_true]
        cases hl : lastWins (entriesOf (c.items.filterMap Item.parsed) .iso) (i : Int) with
        | none =>
          have hnl := lastWins_none m c hc i a hi .iso hl
          by_cases h0 : a.mass = 0
          · have : isoOf a.sym = 0 := by
              by_contra hne; have := haw.iso hne; omega
            simp [h0, this]
          · rcases hc.iso i a hi h0 with h | h
            · simp [haw.iso h]
            · exact absurd h hnl
        | some v =>
          have hv : v = (a.mass : Int) := lastWins_val m c hc i a hi .iso v hl
          subst hv
          by_cases h0 : a.mass = 0
          · have : isoOf a.sym = 0 := by
              by_contra hne; have := haw.iso hne; omega
            simp [h0, this]
          · have h0' : (a.mass : Int) ≠ 0 := by omega
            simp [h0, h0', optInt_ne h0']
      · rw [Contracts.V2000.specGet_other _ _ _ _ h1 h2 h3, hold]
        simp only [nodeAttr, baseAttr, h1, h2, h3, if_false]

end Contracts.V2000File
